//go:build verif

package rosmar

// Read-only accessors to private state, added to the instrumented mirror only (never to /repo).

import (
	"database/sql"
	"sort"
)

// VerifDocRow is one raw row of the documents table.
type VerifDocRow struct {
	Collection string // "scope.collection"
	CollID     int64
	Key        string
	HasValue   bool
	Value      []byte
	Cas        uint64
	Exp        uint32
	Xattrs     []byte // nil = SQL NULL
	IsJSON     bool
	Tombstone  int64
	RevSeqNo   int64
	RowID      int64
}

type VerifCollRow struct {
	ID      int64
	Name    string
	LastCas uint64
}

type VerifViewRow struct {
	Collection string
	DDoc       string
	View       string
	MapFn      string
	ReduceFn   string
	LastCas    uint64
	Mapped     []VerifMappedRow
}

type VerifMappedRow struct {
	DocKey string
	Key    string
	Value  string
}

type VerifDump struct {
	BucketName    string
	BucketUUID    string
	BucketLastCas uint64
	Collections   []VerifCollRow
	Docs          []VerifDocRow
	Views         []VerifViewRow
}

// VerifSQLDB returns the shared database handle (even if this handle is closed).
func VerifSQLDB(b *Bucket) *sql.DB { return b.sqliteDB }

// VerifDumpAll reads every table through the shared database handle, bypassing the closed flag.
func VerifDumpAll(b *Bucket) (d VerifDump, err error) {
	db := b.sqliteDB
	if err = db.QueryRow(`SELECT name, uuid, lastCas FROM bucket`).Scan(&d.BucketName, &d.BucketUUID, &d.BucketLastCas); err != nil {
		return
	}
	rows, err := db.Query(`SELECT id, scope || '.' || name, ifnull(lastCas,0) FROM collections ORDER BY id`)
	if err != nil {
		return
	}
	names := map[int64]string{}
	for rows.Next() {
		var c VerifCollRow
		if err = rows.Scan(&c.ID, &c.Name, &c.LastCas); err != nil {
			rows.Close()
			return
		}
		names[c.ID] = c.Name
		d.Collections = append(d.Collections, c)
	}
	if err = rows.Close(); err != nil {
		return
	}
	rows, err = db.Query(`SELECT id, collection, key, value NOT NULL, value, cas, ifnull(exp,0), xattrs, ifnull(isJSON,0), ifnull(tombstone,0), ifnull(revSeqNo,0) FROM documents ORDER BY collection, key`)
	if err != nil {
		return
	}
	for rows.Next() {
		var r VerifDocRow
		if err = rows.Scan(&r.RowID, &r.CollID, &r.Key, &r.HasValue, &r.Value, &r.Cas, &r.Exp, &r.Xattrs, &r.IsJSON, &r.Tombstone, &r.RevSeqNo); err != nil {
			rows.Close()
			return
		}
		r.Collection = names[r.CollID]
		d.Docs = append(d.Docs, r)
	}
	if err = rows.Close(); err != nil {
		return
	}
	rows, err = db.Query(`SELECT views.id, designDocs.collection, designDocs.name, views.name, views.mapFn, ifnull(views.reduceFn,''), ifnull(views.lastCas,0)
		FROM views JOIN designDocs ON views.designDoc=designDocs.id ORDER BY designDocs.collection, designDocs.name, views.name`)
	if err != nil {
		return
	}
	var ids []int64
	for rows.Next() {
		var v VerifViewRow
		var id, coll int64
		if err = rows.Scan(&id, &coll, &v.DDoc, &v.View, &v.MapFn, &v.ReduceFn, &v.LastCas); err != nil {
			rows.Close()
			return
		}
		v.Collection = names[coll]
		d.Views = append(d.Views, v)
		ids = append(ids, id)
	}
	if err = rows.Close(); err != nil {
		return
	}
	for i, id := range ids {
		rows, err = db.Query(`SELECT documents.key, mapped.key, mapped.value FROM mapped JOIN documents ON mapped.doc=documents.id WHERE mapped.view=?1`, id)
		if err != nil {
			return
		}
		for rows.Next() {
			var m VerifMappedRow
			if err = rows.Scan(&m.DocKey, &m.Key, &m.Value); err != nil {
				rows.Close()
				return
			}
			d.Views[i].Mapped = append(d.Views[i].Mapped, m)
		}
		if err = rows.Close(); err != nil {
			return
		}
		ms := d.Views[i].Mapped
		sort.Slice(ms, func(a, b int) bool {
			if ms[a].DocKey != ms[b].DocKey {
				return ms[a].DocKey < ms[b].DocKey
			}
			if ms[a].Key != ms[b].Key {
				return ms[a].Key < ms[b].Key
			}
			return ms[a].Value < ms[b].Value
		})
	}
	return
}

// VerifInUse reports how many pooled connections of the bucket's database are checked out.
func VerifInUse(b *Bucket) int {
	if b == nil || b.sqliteDB == nil {
		return 0
	}
	return b.sqliteDB.Stats().InUse
}

func VerifIsClosed(b *Bucket) bool   { return b.closed }
func VerifIsInMemory(b *Bucket) bool { return b.inMemory }

// VerifDBOpen reports whether the shared sql.DB still answers a trivial query.
func VerifDBOpen(b *Bucket) bool {
	if b.sqliteDB == nil {
		return false
	}
	var one int
	return b.sqliteDB.QueryRow(`SELECT 1`).Scan(&one) == nil
}

// VerifHandleFeedMapNil reports whether this handle lost its reference to the shared feed map.
func VerifHandleFeedMapNil(b *Bucket) bool { return b.collectionFeeds == nil }

// VerifFeedCounts returns the number of registered live feeds per collection as seen by this handle.
func VerifFeedCounts(b *Bucket) map[string]int {
	out := map[string]int{}
	for name, feeds := range b.collectionFeeds {
		out[name.String()] = len(feeds)
	}
	return out
}

// VerifRegistry returns the registry's refcounts and the URLs of registered buckets.
func VerifRegistry() (counts map[string]uint, urls map[string]string) {
	cluster.lock.Lock()
	defer cluster.lock.Unlock()
	counts = map[string]uint{}
	urls = map[string]string{}
	for k, v := range cluster.bucketCount {
		counts[k] = v
	}
	for k, v := range cluster.buckets {
		urls[k] = v.url
	}
	return
}

// VerifResetGlobals resets process-global state between executions so that replays are identical.
func VerifResetGlobals() {
	cluster = &bucketRegistry{
		bucketCount: make(map[string]uint),
		buckets:     make(map[string]*Bucket),
	}
	hlc = NewHybridLogicalClock(0)
}

// VerifRegistryBuckets returns the canonical bucket objects still in the registry.
func VerifRegistryBuckets() []*Bucket {
	var out []*Bucket
	for _, b := range cluster.buckets {
		out = append(out, b)
	}
	return out
}

type verifClock struct{ f func() uint64 }

func (c verifClock) getTime() uint64 { return c.f() }

// VerifNewHLC builds a HybridLogicalClock over an injected clock function.
func VerifNewHLC(last uint64, f func() uint64) *HybridLogicalClock {
	h := NewHybridLogicalClock(Timestamp(last))
	h.clock = verifClock{f}
	return h
}

func VerifHLCUpdate(h *HybridLogicalClock, t uint64) { h.updateLatestTime(Timestamp(t)) }

// VerifGlobalHLCNow draws a timestamp from the process-wide clock.
func VerifGlobalHLCNow() uint64 { return uint64(hlc.Now()) }

func VerifActiveFeedCount() int32 { return activeFeedCount }

// VerifExpiryState returns the expiry manager's idea of the next deadline and whether a timer exists.
func VerifExpiryState(b *Bucket) (next uint32, hasTimer bool) {
	return *b.expManager.nextExp, b.expManager.timer != nil
}

// VerifResetHLC replaces the process-wide clock by a fresh one, as a newly started process would have.
func VerifResetHLC() { hlc = NewHybridLogicalClock(0) }

// VerifGlobalHLCHighest returns the last timestamp the process-wide clock issued or was seeded with.
func VerifGlobalHLCHighest() uint64 {
	hlc.mutex.Lock()
	defer hlc.mutex.Unlock()
	return hlc.highestTime
}
