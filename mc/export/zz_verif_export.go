//go:build verif

package rosmar

// Read-only accessors to private state, added to the instrumented mirror only (never to /repo).

import (
	"database/sql"
	"fmt"
	"reflect"
	"sort"
	"strings"
	"unsafe"
)

// Private state is reached by TYPE (or, failing that, by name) through reflection wherever possible, so
// that behaviour-preserving refactorings - renamed fields, a pointer turned into a value - do not
// break the instrumented build. Only package-level identifiers (cluster, hlc) are named directly.

// verifField returns the first field of the struct v (or *v) for which pick returns true.
func verifField(v any, pick func(f reflect.StructField) bool) (reflect.Value, bool) {
	rv := reflect.ValueOf(v)
	for rv.Kind() == reflect.Pointer {
		if rv.IsNil() {
			return reflect.Value{}, false
		}
		rv = rv.Elem()
	}
	if rv.Kind() != reflect.Struct {
		return reflect.Value{}, false
	}
	for i := 0; i < rv.NumField(); i++ {
		if pick(rv.Type().Field(i)) {
			f := rv.Field(i)
			if f.CanAddr() {
				f = reflect.NewAt(f.Type(), unsafe.Pointer(f.UnsafeAddr())).Elem() // readable even if unexported
			}
			return f, true
		}
	}
	return reflect.Value{}, false
}

func byName(names ...string) func(reflect.StructField) bool {
	return func(f reflect.StructField) bool {
		for _, n := range names {
			if strings.EqualFold(f.Name, n) {
				return true
			}
		}
		return false
	}
}

func verifDB(b *Bucket) *sql.DB {
	if f, ok := verifField(b, func(f reflect.StructField) bool { return f.Type == reflect.TypeOf((*sql.DB)(nil)) }); ok {
		db, _ := f.Interface().(*sql.DB)
		return db
	}
	return nil
}

func verifBool(v any, names ...string) bool {
	if f, ok := verifField(v, byName(names...)); ok && f.Kind() == reflect.Bool {
		return f.Bool()
	}
	return false
}

// verifFeedMap finds the map from collection name to the slice of registered feeds.
func verifFeedMap(b *Bucket) (reflect.Value, bool) {
	return verifField(b, func(f reflect.StructField) bool {
		return f.Type.Kind() == reflect.Map && f.Type.Elem().Kind() == reflect.Slice && strings.Contains(f.Type.Elem().String(), "dcpFeed")
	})
}

func verifExpManager(b *Bucket) (any, bool) {
	f, ok := verifField(b, func(f reflect.StructField) bool { return strings.Contains(f.Type.String(), "expiryManager") })
	if !ok || (f.Kind() == reflect.Pointer && f.IsNil()) {
		return nil, false
	}
	return f.Interface(), true
}

// VerifDocRow is one raw row of the documents table.
type VerifDocRow struct {
	Collection string // "scope.collection"
	CollID     int64
	Key        string
	HasValue   bool
	Value      []byte
	Cas        uint64
	Exp        uint32
	Xattrs     []byte // nil = SQL NULL
	IsJSON     bool
	Tombstone  int64
	RevSeqNo   int64
	RowID      int64
}

type VerifCollRow struct {
	ID      int64
	Name    string
	LastCas uint64
}

type VerifViewRow struct {
	Collection string
	DDoc       string
	View       string
	MapFn      string
	ReduceFn   string
	LastCas    uint64
	Mapped     []VerifMappedRow
}

type VerifMappedRow struct {
	DocKey string
	Key    string
	Value  string
}

type VerifDump struct {
	BucketName    string
	BucketUUID    string
	BucketLastCas uint64
	Collections   []VerifCollRow
	Docs          []VerifDocRow
	Views         []VerifViewRow
}

// VerifSQLDB returns the shared database handle (even if this handle is closed).
func VerifSQLDB(b *Bucket) *sql.DB { return verifDB(b) }

// VerifDumpAll reads every table through the shared database handle, bypassing the closed flag.
func VerifDumpAll(b *Bucket) (d VerifDump, err error) {
	db := verifDB(b)
	if db == nil {
		return d, sql.ErrConnDone
	}
	if err = db.QueryRow(`SELECT name, uuid, lastCas FROM bucket`).Scan(&d.BucketName, &d.BucketUUID, &d.BucketLastCas); err != nil {
		return
	}
	rows, err := db.Query(`SELECT id, scope || '.' || name, ifnull(lastCas,0) FROM collections ORDER BY id`)
	if err != nil {
		return
	}
	names := map[int64]string{}
	for rows.Next() {
		var c VerifCollRow
		if err = rows.Scan(&c.ID, &c.Name, &c.LastCas); err != nil {
			rows.Close()
			return
		}
		names[c.ID] = c.Name
		d.Collections = append(d.Collections, c)
	}
	if err = rows.Close(); err != nil {
		return
	}
	rows, err = db.Query(`SELECT id, collection, key, value NOT NULL, value, cas, ifnull(exp,0), xattrs, ifnull(isJSON,0), ifnull(tombstone,0), ifnull(revSeqNo,0) FROM documents ORDER BY collection, key`)
	if err != nil {
		return
	}
	for rows.Next() {
		var r VerifDocRow
		if err = rows.Scan(&r.RowID, &r.CollID, &r.Key, &r.HasValue, &r.Value, &r.Cas, &r.Exp, &r.Xattrs, &r.IsJSON, &r.Tombstone, &r.RevSeqNo); err != nil {
			rows.Close()
			return
		}
		r.Collection = names[r.CollID]
		d.Docs = append(d.Docs, r)
	}
	if err = rows.Close(); err != nil {
		return
	}
	rows, err = db.Query(`SELECT views.id, designDocs.collection, designDocs.name, views.name, views.mapFn, ifnull(views.reduceFn,''), ifnull(views.lastCas,0)
		FROM views JOIN designDocs ON views.designDoc=designDocs.id ORDER BY designDocs.collection, designDocs.name, views.name`)
	if err != nil {
		return
	}
	var ids []int64
	for rows.Next() {
		var v VerifViewRow
		var id, coll int64
		if err = rows.Scan(&id, &coll, &v.DDoc, &v.View, &v.MapFn, &v.ReduceFn, &v.LastCas); err != nil {
			rows.Close()
			return
		}
		v.Collection = names[coll]
		d.Views = append(d.Views, v)
		ids = append(ids, id)
	}
	if err = rows.Close(); err != nil {
		return
	}
	for i, id := range ids {
		rows, err = db.Query(`SELECT documents.key, mapped.key, mapped.value FROM mapped JOIN documents ON mapped.doc=documents.id WHERE mapped.view=?1`, id)
		if err != nil {
			return
		}
		for rows.Next() {
			var m VerifMappedRow
			if err = rows.Scan(&m.DocKey, &m.Key, &m.Value); err != nil {
				rows.Close()
				return
			}
			d.Views[i].Mapped = append(d.Views[i].Mapped, m)
		}
		if err = rows.Close(); err != nil {
			return
		}
		ms := d.Views[i].Mapped
		sort.Slice(ms, func(a, b int) bool {
			if ms[a].DocKey != ms[b].DocKey {
				return ms[a].DocKey < ms[b].DocKey
			}
			if ms[a].Key != ms[b].Key {
				return ms[a].Key < ms[b].Key
			}
			return ms[a].Value < ms[b].Value
		})
	}
	return
}

// VerifInUse reports how many pooled connections of the bucket's database are checked out.
func VerifInUse(b *Bucket) int {
	if b == nil || verifDB(b) == nil {
		return 0
	}
	return verifDB(b).Stats().InUse
}

func VerifIsClosed(b *Bucket) bool { return verifBool(b, "closed", "isClosed") }
func VerifIsInMemory(b *Bucket) bool {
	if _, ok := verifField(b, byName("inMemory", "isInMemory")); ok {
		return verifBool(b, "inMemory", "isInMemory")
	}
	return strings.Contains(b.GetURL(), "mode=memory")
}

// VerifDBOpen reports whether the shared sql.DB still answers a trivial query.
func VerifDBOpen(b *Bucket) bool {
	db := verifDB(b)
	if db == nil {
		return false
	}
	var one int
	return db.QueryRow(`SELECT 1`).Scan(&one) == nil
}

// VerifHandleFeedMapNil reports whether this handle lost its reference to the shared feed map.
func VerifHandleFeedMapNil(b *Bucket) bool {
	m, ok := verifFeedMap(b)
	return ok && m.IsNil()
}

// VerifFeedCounts returns the number of registered live feeds per collection as seen by this handle.
func VerifFeedCounts(b *Bucket) map[string]int {
	out := map[string]int{}
	if m, ok := verifFeedMap(b); ok && !m.IsNil() {
		it := m.MapRange()
		for it.Next() {
			name := it.Key().Interface()
			if s, ok := name.(interface{ String() string }); ok {
				out[s.String()] = it.Value().Len()
			}
		}
	}
	return out
}

// VerifRegistry returns the registry's refcounts and the URLs of registered buckets.
func VerifRegistry() (counts map[string]uint, urls map[string]string) {
	counts = map[string]uint{}
	urls = map[string]string{}
	if f, ok := verifField(cluster, func(f reflect.StructField) bool {
		return f.Type.Kind() == reflect.Map && (f.Type.Elem().Kind() == reflect.Uint || f.Type.Elem().Kind() == reflect.Int || f.Type.Elem().Kind() == reflect.Uint32 || f.Type.Elem().Kind() == reflect.Int64 || f.Type.Elem().Kind() == reflect.Uint64)
	}); ok {
		it := f.MapRange()
		for it.Next() {
			if it.Value().CanUint() {
				counts[it.Key().String()] = uint(it.Value().Uint())
			} else {
				counts[it.Key().String()] = uint(it.Value().Int())
			}
		}
	}
	for name, b := range verifRegistryBuckets() {
		urls[name] = b.GetURL()
	}
	return
}

func verifRegistryBuckets() map[string]*Bucket {
	if f, ok := verifField(cluster, func(f reflect.StructField) bool { return f.Type == reflect.TypeOf(map[string]*Bucket{}) }); ok {
		m, _ := f.Interface().(map[string]*Bucket)
		return m
	}
	return nil
}

// VerifResetGlobals resets process-global state between executions so that replays are identical.
func VerifResetGlobals() {
	// a fresh registry: every map field of the registry struct is replaced by an empty map
	fresh := reflect.New(reflect.TypeOf(cluster).Elem())
	for i := 0; i < fresh.Elem().NumField(); i++ {
		f := fresh.Elem().Field(i)
		if f.Kind() == reflect.Map {
			reflect.NewAt(f.Type(), unsafe.Pointer(f.UnsafeAddr())).Elem().Set(reflect.MakeMap(f.Type()))
		}
	}
	cluster = fresh.Interface().(*bucketRegistry)
	hlc = NewHybridLogicalClock(0)
}

// VerifRegistryBuckets returns the canonical bucket objects still in the registry.
func VerifRegistryBuckets() []*Bucket {
	var out []*Bucket
	for _, b := range verifRegistryBuckets() {
		out = append(out, b)
	}
	return out
}

type verifClock struct{ f func() uint64 }

func (c verifClock) getTime() uint64 { return c.f() }

// VerifNewHLC builds a HybridLogicalClock over an injected clock function.
func VerifNewHLC(last uint64, f func() uint64) *HybridLogicalClock {
	h := NewHybridLogicalClock(Timestamp(last))
	h.clock = verifClock{f}
	return h
}

func VerifHLCUpdate(h *HybridLogicalClock, t uint64) { h.updateLatestTime(Timestamp(t)) }

// VerifGlobalHLCNow draws a timestamp from the process-wide clock.
func VerifGlobalHLCNow() uint64 { return uint64(hlc.Now()) }

func VerifActiveFeedCount() int32 { return activeFeedCount }

// VerifExpiryState returns the expiry manager's idea of the next deadline and whether a timer exists.
func VerifExpiryState(b *Bucket) (next uint32, hasTimer bool) {
	em, ok := verifExpManager(b)
	if !ok {
		return 0, false
	}
	if f, ok := verifField(em, byName("nextExp", "next", "nextExpiry")); ok {
		for f.Kind() == reflect.Pointer && !f.IsNil() {
			f = f.Elem()
		}
		if f.CanUint() {
			next = uint32(f.Uint())
		}
	}
	if f, ok := verifField(em, byName("timer", "expTimer")); ok && f.Kind() == reflect.Pointer {
		hasTimer = !f.IsNil()
	}
	return
}

// VerifResetHLC replaces the process-wide clock by a fresh one, as a newly started process would have.
func VerifResetHLC() { hlc = NewHybridLogicalClock(0) }

// VerifGlobalHLCHighest returns the last timestamp the process-wide clock issued or was seeded with.
func VerifGlobalHLCHighest() uint64 {
	hlc.mutex.Lock()
	defer hlc.mutex.Unlock()
	return hlc.highestTime
}

// verifCollCache returns the handle's name -> collection-id cache.
func verifCollCache(b *Bucket) map[string]uint32 {
	f, ok := verifField(b, func(f reflect.StructField) bool {
		return f.Type.Kind() == reflect.Map && f.Type.Elem() == reflect.TypeOf((*Collection)(nil))
	})
	if !ok || f.IsNil() {
		return nil
	}
	out := map[string]uint32{}
	it := f.MapRange()
	for it.Next() {
		c, _ := it.Value().Interface().(*Collection)
		if c != nil {
			out[fmt.Sprint(it.Key().Interface())] = c.GetCollectionID()
		}
	}
	return out
}

// VerifCollectionCaches: the collection cache of this handle and of the registry's canonical bucket
// of the same name (the one the expiry sweep runs on): hidden state that decides later behaviour.
func VerifCollectionCaches(b *Bucket) (handle, canonical map[string]uint32) {
	handle = verifCollCache(b)
	if cb := verifRegistryBuckets()[b.GetName()]; cb != nil {
		canonical = verifCollCache(cb)
	}
	return
}
