module verif/mc

go 1.19

require (
	github.com/couchbase/sg-bucket v0.0.0-20240606153601-d152b90edccb
	github.com/couchbaselabs/rosmar v0.0.0
)

replace github.com/couchbaselabs/rosmar => ../rosmar
