package h

import (
	"encoding/json"
	"fmt"
	"os"
	"sort"
	"strings"
	"time"

	"github.com/couchbaselabs/rosmar"
	"github.com/couchbaselabs/rosmar/vrt"
)

// ---------------------------------------------------------------------------------------------
// Scenario framework for the SCHED engine (DESIGN §2.4): a closed multi-threaded driver around a
// real bucket; the explorer enumerates its interleavings up to a preemption bound.

// OpRec is the recorded call/return of one harness operation.
type OpRec struct {
	Thread int    `json:"t"`
	Index  int    `json:"i"`
	Name   string `json:"name"`
	Inv    int    `json:"inv"` // scheduler step at invocation
	Ret    int    `json:"ret"` // scheduler step at response
	Out    string `json:"out"` // abstract result (CAS values replaced by «cas:N» placeholders)
	Cas    []uint64 `json:"cas,omitempty"`
	Extra  map[string]string `json:"extra,omitempty"`
}

// SOp is one operation of a harness thread. It returns an abstract result string; CAS values it
// wants compared by rank are appended to cas.
type SOp struct {
	Name string
	Do   func(w *SWorld, st *TState) (out string, cas []uint64)
}

// TState is per-thread scratch state shared by the operations of one thread.
type TState struct {
	T     int
	Cas   uint64
	Body  []byte
	Vals  map[string]string
	Shown [][]byte
}

type Scenario struct {
	Name    string
	Prop    []string // properties whose oracle this scenario serves
	Disk    bool
	Handles int
	Keys    []string // keys whose final state is observed (default k)
	Feeds   bool     // start a live feed on A before the threads
	Setup   func(w *SWorld)
	Threads [][]SOp
	// Check runs after all threads joined and the world is quiescent; it sees the recorded ops.
	Check func(w *SWorld, ops []OpRec, final string) []Violation
	// Lin: compare (results, final state) against sequential runs of the same operations.
	Lin bool
	// NoTeardownChecks: skip leak accounting (scenario manages shutdown itself)
	Custom func(w *SWorld) []Violation // fully custom body instead of Threads (shutdown scenarios)
	NoOpen bool                        // the scenario opens its own handles (Setup / threads)
	ThoroughOnly bool                  // explored in the thorough tier only
}

type SWorld struct {
	setupRev    int64
	setupMaxCas uint64
	Cfg   Config
	Extra []*rosmar.Bucket // further buckets to delete at teardown
	Sc    *Scenario
	Root  string
	H     []*rosmar.Bucket
	A     []*rosmar.Collection
	Feeds []*FeedRec
	Ops   []OpRec
	Notes []string
}

func (w *SWorld) Open(cfg Config) {
	n := w.Sc.Handles
	if n == 0 {
		n = 1
	}
	for i := 0; i < n; i++ {
		b, err := rosmar.OpenBucket(BucketURL(cfg, "b1"), "b1", rosmar.CreateOrOpen)
		must(err)
		w.H = append(w.H, b)
		w.A = append(w.A, coll(b, NameA))
	}
}

// C returns the collection view thread t uses (threads are spread over the handles).
func (w *SWorld) C(t int) *rosmar.Collection { return w.A[t%len(w.A)] }

func (w *SWorld) finalState(keys []string) string {
	d, err := rosmar.VerifDumpAll(w.H[0])
	if err != nil {
		return "dump error: " + err.Error()
	}
	rows := rowsOf(d)
	var cas []uint64
	for _, k := range keys {
		if r := rows["sc.A/"+k]; r != nil {
			cas = append(cas, r.Cas)
		}
	}
	sort.Slice(cas, func(i, j int) bool { return cas[i] < cas[j] })
	rank := map[uint64]int{}
	for _, c := range cas {
		if _, ok := rank[c]; !ok {
			rank[c] = len(rank)
		}
	}
	var b strings.Builder
	for _, k := range keys {
		r := rows["sc.A/"+k]
		if r == nil {
			fmt.Fprintf(&b, "%s:absent;", k)
			continue
		}
		fmt.Fprintf(&b, "%s:v=%q/%v x=%q exp=%d rev=%d cas#%d;", k, r.Value, r.HasValue, r.Xattrs, r.Exp, r.RevSeqNo, rank[r.Cas])
	}
	return b.String()
}

// abstractCas rewrites the CAS values mentioned by the ops into ranks over the whole execution.
func abstractOps(ops []OpRec) []string {
	var all []uint64
	for _, o := range ops {
		all = append(all, o.Cas...)
	}
	sort.Slice(all, func(i, j int) bool { return all[i] < all[j] })
	rank := map[uint64]int{}
	for _, c := range all {
		if c == 0 {
			continue
		}
		if _, ok := rank[c]; !ok {
			rank[c] = len(rank) + 1
		}
	}
	out := make([]string, len(ops))
	for i, o := range ops {
		s := o.Out
		for j, c := range o.Cas {
			s = strings.Replace(s, fmt.Sprintf("«%d»", j), fmt.Sprintf("cas#%d", rank[c]), 1)
		}
		out[i] = fmt.Sprintf("t%d.%d %s -> %s", o.Thread, o.Index, o.Name, s)
	}
	return out
}

// ---------------------------------------------------------------------------------------------
// one execution

type ExecResult struct {
	Choices    []int
	Points     []vrt.Point
	Ops        []OpRec
	Final      string
	Violations []Violation
	Abnormal   string
	Key        string // (results, final) - identity of the observable outcome
	Diverged   string
}

func scenarioCfg(sc *Scenario) Config {
	return Config{Disk: sc.Disk}
}

func runScenario(sc *Scenario, prefix []int, hook func(p *vrt.Point) int) ExecResult {
	var res ExecResult
	resetProcess()
	cfg := scenarioCfg(sc)
	if cfg.Disk {
		cfg.Root = NewScratchDir()
		defer removeAll(cfg.Root)
	}
	w := &SWorld{Sc: sc, Root: cfg.Root}
	opts := schedOpts(func() *rosmar.Bucket {
		if len(w.H) == 0 {
			return nil
		}
		return w.H[0]
	})
	opts.ChooseHook = hook
	keys := sc.Keys
	if keys == nil {
		keys = []string{"k"}
	}
	oc := vrt.Run(prefix, opts, func() {
		w.Cfg = cfg
		if !sc.NoOpen {
			w.Open(cfg)
		}
		if sc.Feeds {
			f, err := StartLiveFeed(w.A[0], "live")
			must(err)
			w.Feeds = append(w.Feeds, f)
		}
		if sc.Setup != nil {
			sc.Setup(w)
		}
		vrt.Quiesce()
		if sc.Custom != nil {
			res.Violations = append(res.Violations, sc.Custom(w)...)
			return
		}
		var ts []*vrt.Thread
		for ti := range sc.Threads {
			ti := ti
			st := &TState{T: ti, Vals: map[string]string{}}
			ts = append(ts, vrt.GoNamed(fmt.Sprintf("T%d", ti), func() {
				for oi, op := range sc.Threads[ti] {
					rec := OpRec{Thread: ti, Index: oi, Name: op.Name, Inv: vrt.Step()}
					rec.Out, rec.Cas = op.Do(w, st)
					rec.Ret = vrt.Step()
					w.Ops = append(w.Ops, rec)
				}
			}))
		}
		vrt.Join(ts...)
		vrt.Quiesce()
		if len(w.H) > 0 {
			res.Final = w.finalState(keys)
		}
		res.Ops = w.Ops
		if sc.Check != nil {
			res.Violations = append(res.Violations, sc.Check(w, w.Ops, res.Final)...)
		}
		for _, f := range w.Feeds {
			f.CloseTerm()
		}
		vrt.Quiesce()
		if len(w.H) > 0 {
			_ = w.H[0].CloseAndDelete(ctx)
		}
		for _, b := range w.Extra {
			_ = b.CloseAndDelete(ctx)
		}
		vrt.Quiesce()
	})
	res.Points = oc.Points
	for _, p := range oc.Points {
		res.Choices = append(res.Choices, p.Chosen)
	}
	switch {
	case oc.Diverged != "":
		res.Diverged = oc.Diverged
	case oc.Panic != "":
		res.Abnormal = "panic: " + oc.Panic
		if len(oc.PanicLocks) > 0 {
			res.Abnormal += fmt.Sprintf("\n[locks left held by the panicking goroutine: %v]", oc.PanicLocks)
		}
	case oc.Deadlock:
		res.Abnormal = fmt.Sprintf("deadlock: blocked=%v held=%v", oc.Blocked, oc.HeldLocks)
	case oc.StepLimit:
		res.Abnormal = "livelock: step horizon exceeded"
	case len(oc.Leaked) > 0:
		res.Abnormal = fmt.Sprintf("leaked goroutines after shutdown: %v", oc.Leaked)
	case len(oc.HeldLocks) > 0:
		res.Abnormal = fmt.Sprintf("locks still held after shutdown: %v", oc.HeldLocks)
	}
	sorted := append([]OpRec(nil), res.Ops...)
	sort.Slice(sorted, func(i, j int) bool {
		if sorted[i].Thread != sorted[j].Thread {
			return sorted[i].Thread < sorted[j].Thread
		}
		return sorted[i].Index < sorted[j].Index
	})
	res.Key = strings.Join(abstractOps(sorted), " | ") + " || " + res.Final
	return res
}

// ---------------------------------------------------------------------------------------------
// sequential reference: every order-respecting permutation, run on the same implementation

type seqOutcome struct {
	Key   string
	Order [][2]int
}

func permutations(lens []int) [][][2]int {
	var out [][][2]int
	idx := make([]int, len(lens))
	var cur [][2]int
	total := 0
	for _, l := range lens {
		total += l
	}
	var rec func()
	rec = func() {
		if len(cur) == total {
			out = append(out, append([][2]int(nil), cur...))
			return
		}
		for t := range lens {
			if idx[t] < lens[t] {
				cur = append(cur, [2]int{t, idx[t]})
				idx[t]++
				rec()
				idx[t]--
				cur = cur[:len(cur)-1]
			}
		}
	}
	rec()
	return out
}

func sequentialOutcomes(sc *Scenario) ([]seqOutcome, error) {
	lens := make([]int, len(sc.Threads))
	for i, t := range sc.Threads {
		lens[i] = len(t)
	}
	keys := sc.Keys
	if keys == nil {
		keys = []string{"k"}
	}
	var outs []seqOutcome
	for _, order := range permutations(lens) {
		order := order
		resetProcess()
		cfg := scenarioCfg(sc)
		if cfg.Disk {
			cfg.Root = NewScratchDir()
		}
		w := &SWorld{Sc: sc, Root: cfg.Root}
		var key string
		oc := vrt.Run(nil, schedOpts(func() *rosmar.Bucket {
			if len(w.H) == 0 {
				return nil
			}
			return w.H[0]
		}), func() {
			w.Cfg = cfg
			if !sc.NoOpen {
				w.Open(cfg)
			}
			if sc.Feeds {
				f, err := StartLiveFeed(w.A[0], "live")
				must(err)
				w.Feeds = append(w.Feeds, f)
			}
			if sc.Setup != nil {
				sc.Setup(w)
			}
			vrt.Quiesce()
			sts := make([]*TState, len(sc.Threads))
			for i := range sts {
				sts[i] = &TState{T: i, Vals: map[string]string{}}
			}
			for _, ti := range order {
				op := sc.Threads[ti[0]][ti[1]]
				rec := OpRec{Thread: ti[0], Index: ti[1], Name: op.Name}
				rec.Out, rec.Cas = op.Do(w, sts[ti[0]])
				w.Ops = append(w.Ops, rec)
				vrt.Quiesce()
			}
			final := w.finalState(keys)
			sorted := append([]OpRec(nil), w.Ops...)
			sort.Slice(sorted, func(i, j int) bool {
				if sorted[i].Thread != sorted[j].Thread {
					return sorted[i].Thread < sorted[j].Thread
				}
				return sorted[i].Index < sorted[j].Index
			})
			key = strings.Join(abstractOps(sorted), " | ") + " || " + final
			for _, f := range w.Feeds {
				f.CloseTerm()
			}
			vrt.Quiesce()
			_ = w.H[0].CloseAndDelete(ctx)
			vrt.Quiesce()
		})
		if cfg.Disk {
			removeAll(cfg.Root)
		}
		if oc.Panic != "" || oc.Deadlock || oc.Diverged != "" {
			return nil, fmt.Errorf("sequential reference run %v failed: panic=%q deadlock=%v", order, firstLine(oc.Panic), oc.Deadlock)
		}
		outs = append(outs, seqOutcome{Key: key, Order: order})
	}
	return outs, nil
}

// linearizable reports whether some sequential order with the same observable outcome respects
// the real-time order of the concurrent execution.
func linearizable(ex ExecResult, refs []seqOutcome) bool {
	type span struct{ inv, ret int }
	spans := map[[2]int]span{}
	for _, o := range ex.Ops {
		spans[[2]int{o.Thread, o.Index}] = span{o.Inv, o.Ret}
	}
	for _, r := range refs {
		if r.Key != ex.Key {
			continue
		}
		ok := true
		for i := 0; i < len(r.Order) && ok; i++ {
			for j := i + 1; j < len(r.Order); j++ {
				// order puts i before j: illegal if j returned before i was invoked
				if spans[r.Order[j]].ret < spans[r.Order[i]].inv {
					ok = false
					break
				}
			}
		}
		if ok {
			return true
		}
	}
	return false
}

// ---------------------------------------------------------------------------------------------
// DFS explorer (runs inside a worker)

type SchedJob struct {
	Scenario string `json:"scenario"`
	Prefix   []int  `json:"prefix"`
	Bound    int    `json:"bound"`
	Expand   bool   `json:"expand"` // only run the prefix itself and return the child prefixes
	MaxExec  int    `json:"maxExec"`
	Budget   int    `json:"budgetSec"`
}

type SchedWitness struct {
	Violation Violation `json:"violation"`
	Choices   []int     `json:"choices"`
	Trace     []string  `json:"trace,omitempty"`
	Ops       []string  `json:"ops,omitempty"`
}

type SchedJobResult struct {
	Executions int                      `json:"executions"`
	MaxPoints  int                      `json:"maxPoints"`
	Children   [][]int                  `json:"children,omitempty"`
	Outcomes   map[string]int           `json:"outcomes"`
	Witnesses  map[string]*SchedWitness `json:"witnesses"`
	Capped     bool                     `json:"capped"`
	Err        string                   `json:"err,omitempty"`
	Sample     *SchedWitness            `json:"sample,omitempty"`
	SeqRefs    int                      `json:"seqRefs"`
}

var scenarios = map[string]*Scenario{}

func RegisterScenario(sc *Scenario) {
	if _, dup := scenarios[sc.Name]; dup {
		panic("duplicate scenario " + sc.Name)
	}
	scenarios[sc.Name] = sc
}

var seqRefCache = map[string][]seqOutcome{}

// cost counts deviations: every departure from the default choice (continue the running thread if
// it can, else the lowest-numbered enabled thread) costs one, whether it preempts a runnable thread
// or reorders threads at a blocking point. (Charging only preemptions, CHESS-style, made the space
// explode on scenarios with several background feed goroutines: 1.8 M executions at bound 2.)
func cost(points []vrt.Point, upto int) int {
	c := 0
	for j := 0; j < upto; j++ {
		if points[j].Chosen != 0 {
			c++
		}
	}
	return c
}

func traceOf(points []vrt.Point) []string {
	var out []string
	for i, p := range points {
		if p.Chosen != 0 {
			out = append(out, fmt.Sprintf("point %d: enabled %v, ran %s%s", i, p.Enabled, p.Label, ifs(p.RunningEnabled, " (preemption)", "")))
		}
	}
	return out
}

func ExploreSched(job SchedJob) SchedJobResult {
	out := SchedJobResult{Outcomes: map[string]int{}, Witnesses: map[string]*SchedWitness{}}
	sc := scenarios[job.Scenario]
	if sc == nil {
		out.Err = "unknown scenario " + job.Scenario
		return out
	}
	var refs []seqOutcome
	if sc.Lin {
		var ok bool
		if refs, ok = seqRefCache[sc.Name]; !ok {
			var err error
			refs, err = sequentialOutcomes(sc)
			if err != nil {
				out.Err = err.Error()
				return out
			}
			seqRefCache[sc.Name] = refs
		}
		out.SeqRefs = len(refs)
	}
	// determinism self-test (R4): the default schedule run twice must give identical observations and choice points
	if len(job.Prefix) == 0 {
		a, b := runScenario(sc, nil, nil), runScenario(sc, nil, nil)
		if a.Key != b.Key || len(a.Points) != len(b.Points) || a.Abnormal != b.Abnormal {
			out.Err = fmt.Sprintf("scenario %s is not deterministic under the scheduler: %q/%d points vs %q/%d points", sc.Name, a.Key, len(a.Points), b.Key, len(b.Points))
			return out
		}
	}
	deadline := time.Now().Add(time.Duration(job.Budget) * time.Second)
	var explore func(prefix []int)
	explore = func(prefix []int) {
		if out.Err != "" || out.Capped {
			return
		}
		if (job.MaxExec > 0 && out.Executions >= job.MaxExec) || (job.Budget > 0 && time.Now().After(deadline)) {
			out.Capped = true
			return
		}
		x := runScenario(sc, prefix, nil)
		out.Executions++
		if x.Diverged != "" {
			out.Err = fmt.Sprintf("prefix %v: %s", prefix, x.Diverged)
			return
		}
		if len(x.Points) > out.MaxPoints {
			out.MaxPoints = len(x.Points)
		}
		out.Outcomes[x.Key]++
		viols := x.Violations
		if x.Abnormal != "" {
			viols = append(viols, Violation{Prop: "C20", Op: sc.Name, Pre: "sched", Field: abnormalKind(x.Abnormal), Detail: x.Abnormal})
		}
		if sc.Lin && x.Abnormal == "" && !linearizable(x, refs) {
			for _, p := range sc.Prop {
				viols = append(viols, Violation{Prop: p, Op: sc.Name, Pre: "sched", Field: "not-linearizable", Detail: "no sequential order of the same operations (respecting real-time order) gives this outcome: " + x.Key})
			}
		}
		for _, v := range viols {
			sig := v.Sig()
			if _, ok := out.Witnesses[sig]; !ok {
				out.Witnesses[sig] = &SchedWitness{Violation: v, Choices: x.Choices, Trace: traceOf(x.Points), Ops: abstractOps(x.Ops)}
			}
		}
		if out.Sample == nil || cost(x.Points, len(x.Points)) > 0 && len(out.Sample.Trace) == 0 {
			out.Sample = &SchedWitness{Choices: x.Choices, Trace: traceOf(x.Points), Ops: abstractOps(x.Ops)}
		}
		for i := len(prefix); i < len(x.Points); i++ {
			p := x.Points[i]
			c := cost(x.Points, i) + 1
			if c > job.Bound {
				continue
			}
			for alt := 1; alt < len(p.Enabled); alt++ {
				child := append(append([]int(nil), x.Choices[:i]...), alt)
				if job.Expand {
					out.Children = append(out.Children, child)
				} else {
					explore(child)
				}
			}
		}
	}
	explore(job.Prefix)
	return out
}

func abnormalKind(s string) string {
	switch {
	case strings.HasPrefix(s, "panic"):
		if strings.Contains(s, "locks left held") {
			return "panic+lock-held"
		}
		return "panic"
	case strings.HasPrefix(s, "deadlock"):
		return "deadlock"
	case strings.HasPrefix(s, "livelock"):
		return "livelock"
	case strings.HasPrefix(s, "leaked"):
		return "goroutine-leak"
	}
	return "lock-leak"
}

func init() {
	RegisterHandler("sched", func(raw json.RawMessage) (any, error) {
		var job SchedJob
		if err := json.Unmarshal(raw, &job); err != nil {
			return nil, err
		}
		return ExploreSched(job), nil
	})
}

// ---------------------------------------------------------------------------------------------
// parent side

type SchedReplay struct {
	Kind     string   `json:"kind"`
	Scenario string   `json:"scenario"`
	Choices  []int    `json:"choices"`
	Trace    []string `json:"trace"`
	Ops      []string `json:"ops"`
}

// RunSched explores one scenario up to the preemption bound, sharded over the pool.
func RunSched(rep *Report, pool *Pool, name string, bound int, deadline time.Time) {
	sc := scenarios[name]
	if sc == nil {
		rep.Internal = append(rep.Internal, "unknown scenario "+name)
		return
	}
	stats := map[string]any{"bound": bound}
	execs, maxPoints := 0, 0
	outcomes := map[string]int{}
	capped := false
	handle := func(res SchedJobResult) {
		execs += res.Executions
		if res.MaxPoints > maxPoints {
			maxPoints = res.MaxPoints
		}
		for k, n := range res.Outcomes {
			outcomes[k] += n
		}
		if res.Capped {
			capped = true
		}
		for _, w := range res.Witnesses {
			rep.AddViolation(w.Violation, SchedReplay{"sched", name, w.Choices, w.Trace, w.Ops})
		}
		if res.Sample != nil && len(rep.Samples) < 6 {
			rep.AddSample(map[string]any{"scenario": name, "choices": res.Sample.Choices, "deviations": res.Sample.Trace, "ops": res.Sample.Ops})
		}
		if res.SeqRefs > 0 {
			stats["sequential_reference_orders"] = res.SeqRefs
		}
	}
	// root
	var rootRes SchedJobResult
	budget := int(time.Until(deadline).Seconds())
	if budget < 5 {
		budget = 5
	}
	pool.Map("sched", []any{SchedJob{Scenario: name, Bound: bound, Expand: true, Budget: budget}}, 600*time.Second, func(o JobOutcome) {
		if o.Err != "" {
			if o.Timeout {
				rep.AddViolation(Violation{Prop: "C20", Op: name, Pre: "sched", Field: "hang", Detail: "default schedule hung natively"}, SchedReplay{Kind: "sched", Scenario: name})
			}
			rep.Internal = append(rep.Internal, fmt.Sprintf("sched %s root: %s", name, o.Err))
			return
		}
		_ = json.Unmarshal(o.Data, &rootRes)
	})
	if rootRes.Err != "" {
		rep.Internal = append(rep.Internal, fmt.Sprintf("sched %s: %s", name, rootRes.Err))
		return
	}
	handle(rootRes)
	jobs := make([]any, len(rootRes.Children))
	for i, c := range rootRes.Children {
		jobs[i] = SchedJob{Scenario: name, Prefix: c, Bound: bound, Budget: budget}
	}
	pool.Map("sched", jobs, time.Duration(budget+120)*time.Second, func(o JobOutcome) {
		if o.Err != "" {
			if o.Timeout {
				pre := rootRes.Children[o.Index]
				rep.AddViolation(Violation{Prop: "C20", Op: name, Pre: "sched", Field: "hang", Detail: fmt.Sprintf("subtree %v hung natively", pre)}, SchedReplay{Kind: "sched", Scenario: name, Choices: pre})
				rep.Notes = append(rep.Notes, fmt.Sprintf("%s: subtree %v timed out", name, pre))
				capped = true
				return
			}
			rep.Internal = append(rep.Internal, fmt.Sprintf("sched %s subtree: %s", name, o.Err))
			return
		}
		var res SchedJobResult
		if err := json.Unmarshal(o.Data, &res); err != nil {
			rep.Internal = append(rep.Internal, err.Error())
			return
		}
		if res.Err != "" {
			rep.Internal = append(rep.Internal, fmt.Sprintf("sched %s: %s", name, res.Err))
			return
		}
		handle(res)
	})
	if capped {
		rep.Exhaustive = false
		rep.Notes = append(rep.Notes, fmt.Sprintf("%s: exploration capped by the internal deadline; bound %d not completed", name, bound))
	}
	stats["executions"] = execs
	stats["max_points"] = maxPoints
	stats["distinct_outcomes"] = len(outcomes)
	stats["completed"] = !capped
	if len(outcomes) == 1 && execs > 10 {
		stats["warning"] = "one observable outcome from many executions: nothing collided"
	}
	rep.Extra["sched_"+name] = stats
	rep.Executions += execs
	rep.Transitions += execs // one schedule = one trace validated against the implementation
	rep.States += len(outcomes)
	for k := range outcomes {
		rep.Outcome(name, fmt.Sprintf("%x", hashString(k)))
	}
	_ = os.Stdout
}

func hashString(s string) uint32 {
	var h uint32 = 2166136261
	for i := 0; i < len(s); i++ {
		h ^= uint32(s[i])
		h *= 16777619
	}
	return h
}

// ScenarioNamesTier is ScenarioNames without the thorough-only scenarios when quick is set.
func ScenarioNamesTier(quick bool, prefixes ...string) []string {
	var out []string
	for _, n := range ScenarioNames(prefixes...) {
		if quick && scenarios[n].ThoroughOnly {
			continue
		}
		out = append(out, n)
	}
	return out
}

// ScenarioNames returns the registered scenarios whose name starts with one of the prefixes, sorted.
func ScenarioNames(prefixes ...string) []string {
	var out []string
	for n := range scenarios {
		for _, p := range prefixes {
			if strings.HasPrefix(n, p) {
				out = append(out, n)
				break
			}
		}
	}
	sort.Strings(out)
	return out
}

// RunSchedMany explores many scenarios, one worker job per scenario (each job runs the complete
// deviation-bounded DFS of its scenario).
func RunSchedMany(rep *Report, pool *Pool, names []string, bound int, deadline time.Time) {
	RunSchedManyKey(rep, pool, names, bound, deadline, "sched")
}

// RunSchedManyKey is RunSchedMany reporting under the given key of the evidence's extra section.
func RunSchedManyKey(rep *Report, pool *Pool, names []string, bound int, deadline time.Time, key string) {
	if len(names) == 0 {
		return
	}
	budget := int(time.Until(deadline).Seconds())
	if budget < 10 {
		budget = 10
	}
	jobs := make([]any, len(names))
	for i, n := range names {
		jobs[i] = SchedJob{Scenario: n, Bound: bound, Budget: budget}
	}
	total, completed := 0, 0
	perScenario := map[string]any{}
	oneOutcome := 0
	pool.Map("sched", jobs, time.Duration(budget+180)*time.Second, func(o JobOutcome) {
		name := names[o.Index]
		if o.Err != "" {
			if o.Timeout {
				rep.AddViolation(Violation{Prop: "C20", Op: name, Pre: "sched", Field: "hang", Detail: "exploration hung natively (an uninstrumented blocking call never returned)"}, SchedReplay{Kind: "sched", Scenario: name})
				rep.Exhaustive = false
				rep.Notes = append(rep.Notes, name+": timed out")
				return
			}
			rep.Internal = append(rep.Internal, fmt.Sprintf("sched %s: %s", name, o.Err))
			return
		}
		var res SchedJobResult
		if err := json.Unmarshal(o.Data, &res); err != nil {
			rep.Internal = append(rep.Internal, err.Error())
			return
		}
		if res.Err != "" {
			rep.Internal = append(rep.Internal, fmt.Sprintf("sched %s: %s", name, res.Err))
			return
		}
		total += res.Executions
		rep.Executions += res.Executions
		rep.Transitions += res.Executions
		rep.States += len(res.Outcomes)
		if res.Capped {
			rep.Exhaustive = false
			rep.Notes = append(rep.Notes, fmt.Sprintf("%s: capped by the internal deadline after %d executions; bound %d not completed", name, res.Executions, bound))
		} else {
			completed++
		}
		if len(res.Outcomes) == 1 && res.Executions > 10 {
			oneOutcome++
		}
		perScenario[name] = map[string]any{"executions": res.Executions, "max_points": res.MaxPoints, "distinct_outcomes": len(res.Outcomes), "completed": !res.Capped, "sequential_reference_orders": res.SeqRefs}
		for k := range res.Outcomes {
			rep.Outcome(name, fmt.Sprintf("%x", hashString(k)))
		}
		for _, w := range res.Witnesses {
			rep.AddViolation(w.Violation, SchedReplay{"sched", name, w.Choices, w.Trace, w.Ops})
		}
		if res.Sample != nil {
			rep.AddSample(map[string]any{"scenario": name, "choices": res.Sample.Choices, "deviations": res.Sample.Trace, "ops": res.Sample.Ops})
		}
	})
	if len(perScenario) < len(names) {
		rep.Exhaustive = false
		rep.Notes = append(rep.Notes, fmt.Sprintf("%d of %d scenarios were not started before the internal deadline", len(names)-len(perScenario), len(names)))
	}
	prev, _ := rep.Extra[key].(map[string]any)
	if prev == nil {
		prev = map[string]any{"scenarios": map[string]any{}}
	}
	sc := prev["scenarios"].(map[string]any)
	for k, v := range perScenario {
		sc[k] = v
	}
	prev["deviation_bound"] = bound
	prev["scenarios_run"] = len(sc)
	prev["scenarios_with_one_outcome"] = oneOutcome
	rep.Extra[key] = prev
}

// ReplaySched re-executes a recorded schedule three times and reports whether the violation recurs.
func ReplaySched(w Witness) int {
	var rp SchedReplay
	_ = json.Unmarshal(w.Replay, &rp)
	sc := scenarios[rp.Scenario]
	if sc == nil {
		fmt.Println("unknown scenario", rp.Scenario)
		return 2
	}
	var refs []seqOutcome
	if sc.Lin {
		var err error
		if refs, err = sequentialOutcomes(sc); err != nil {
			fmt.Println(err)
			return 2
		}
	}
	recurs := 0
	for i := 0; i < 3; i++ {
		x := runScenario(sc, rp.Choices, nil)
		if x.Diverged != "" {
			fmt.Println("replay diverged:", x.Diverged)
			return 2
		}
		viols := x.Violations
		if x.Abnormal != "" {
			viols = append(viols, Violation{Prop: "C20", Op: sc.Name, Pre: "sched", Field: abnormalKind(x.Abnormal), Detail: x.Abnormal})
		}
		if sc.Lin && x.Abnormal == "" && !linearizable(x, refs) {
			for _, p := range sc.Prop {
				viols = append(viols, Violation{Prop: p, Op: sc.Name, Pre: "sched", Field: "not-linearizable", Detail: x.Key})
			}
		}
		if i == 0 {
			fmt.Printf("scenario %s, schedule %v\n", rp.Scenario, rp.Choices)
			for _, t := range traceOf(x.Points) {
				fmt.Println("  ", t)
			}
			if os.Getenv("VERIF_TRACE") != "" {
				for i, p := range x.Points {
					fmt.Printf("     point %d: enabled %v -> %s\n", i, p.Enabled, p.Label)
				}
			}
			for _, o := range abstractOps(x.Ops) {
				fmt.Println("  ", o)
			}
			fmt.Println("   final:", x.Final)
		}
		for _, v := range viols {
			if i == 0 {
				fmt.Printf("  [%s] %s\n", v.Sig(), v.Detail)
			}
			if v.Sig() == w.Sig {
				recurs++
			}
		}
	}
	if recurs == 3 {
		fmt.Printf("VIOLATION property=%s reproduced 3/3\n", w.Prop)
		return 1
	}
	fmt.Printf("violation %s reproduced %d/3\n", w.Sig, recurs)
	if recurs == 0 {
		return 0
	}
	return 2
}
