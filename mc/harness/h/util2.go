package h

import "github.com/couchbaselabs/rosmar/vrt"

func vrtQuiesce() { vrt.Quiesce() }
