package h

import (
	"encoding/json"
	"fmt"
	"sort"
	"strings"

	sgbucket "github.com/couchbase/sg-bucket"
	"github.com/couchbaselabs/rosmar"
	"github.com/couchbaselabs/rosmar/vrt"
)

// CpWorld: checkpointed feeds resume without skipping (C15), sequential part. One bucket through
// two handles, collection A with keys k and j, one checkpointed feed identity ("chk:cp") whose runs
// are started through either handle as a live run (stopped by its terminator) or a dump run (ends by
// itself), interleaved with writes, deletes, a purge, and - on disk - a close of every handle and
// reopen. Oracle, after every operation: once a run has gone quiescent (a live run with nothing left
// to deliver, or a finished dump), the union of everything delivered by all runs so far contains
// the current version of every document; and the persisted checkpoint is never above the highest
// CAS any run delivered.

type CpWorld struct {
	cfg       Config
	h         []*rosmar.Bucket
	run       *FeedRec // the live run, if one is active
	runHandle int
	delivered map[string]bool // "key@cas"
	maxCas    uint64
	runs      int
	step      int
}

const cpKey = "chk:cp"

// the collection lives in the _default scope (every other world uses the scope "sc")
var cpName = sgbucket.DataStoreNameImpl{Scope: "_default", Collection: "c1"}

const cpColl = "_default.c1"

func init() {
	RegisterWorld("checkpoint", func(cfg Config) GenWorld {
		w := &CpWorld{cfg: cfg, delivered: map[string]bool{}}
		w.open(rosmar.CreateOrOpen)
		must(coll(w.h[0], cpName).Set("j", 0, nil, []byte(`{"v":"j0"}`)))
		return w
	})
}

func (w *CpWorld) open(mode rosmar.OpenMode) {
	var hs []*rosmar.Bucket
	for i := 0; i < 2; i++ {
		b, err := rosmar.OpenBucket(BucketURL(w.cfg, "b1"), "b1", mode)
		must(err)
		hs = append(hs, b)
	}
	w.h = hs
}

func (w *CpWorld) Bucket() *rosmar.Bucket {
	if len(w.h) == 0 {
		return nil
	}
	return w.h[0]
}

func (w *CpWorld) Alphabet(tier int) []string {
	ops := []string{"set/k/0", "set/j/1", "del/k/1", "add/k/0", "setx/j/0", "live/0", "live/1", "stop", "dump/0", "dump/1", "purge", "droprecreate/1"}
	if w.cfg.Disk {
		ops = append(ops, "reopen")
	}
	return ops
}

func (w *CpWorld) absorb(evs []EventObs) {
	for _, e := range evs {
		if e.Key == "" {
			continue
		}
		w.delivered[fmt.Sprintf("%s@%d", e.Key, e.Cas)] = true
		if e.Cas > w.maxCas {
			w.maxCas = e.Cas
		}
	}
}

func (w *CpWorld) Apply(op string) (string, []Violation) {
	w.step++
	c := &checker{op: op, pre: "checkpoint"}
	parts := strings.Split(op, "/")
	hi := 0
	if len(parts) > 1 && (parts[len(parts)-1] == "1") {
		hi = 1
	}
	a := coll(w.h[hi], cpName)
	var err error
	complete := false // a run has just gone quiescent: the completeness obligation is due
	switch parts[0] {
	case "set":
		err = a.Set(parts[1], 0, nil, []byte(fmt.Sprintf(`{"v":%d}`, w.step)))
	case "del":
		err = a.Delete(parts[1])
	case "add":
		_, err = a.Add(parts[1], 0, []byte(fmt.Sprintf(`{"a":%d}`, w.step)))
	case "setx":
		_, err = a.SetXattrs(ctx, parts[1], map[string][]byte{"_s": []byte(fmt.Sprintf(`{"n":%d}`, w.step))})
	case "purge":
		_, err = w.h[hi].PurgeTombstones()
	case "droprecreate":
		// through handle 1 (handle 0 keeps whatever it has cached); a live run ends with the collection
		if w.run != nil {
			vrt.Quiesce()
			w.absorb(w.run.Take())
		}
		err = w.h[1].DropDataStore(cpName)
		vrt.Quiesce()
		if w.run != nil {
			if !w.run.DoneClosed() {
				c.add("C16", "done", "dropping the collection did not end the checkpointed live run")
			}
			w.run.CloseTerm()
			w.run = nil
		}
		if err == nil {
			err = coll(w.h[1], cpName).Set("j", 0, nil, []byte(fmt.Sprintf(`{"v":"r%d"}`, w.step)))
		}
	case "live":
		if w.run != nil {
			return "skip", nil
		}
		f := NewFeedRec("cp")
		err = a.StartDCPFeed(ctx, sgbucket.FeedArguments{ID: "cp", Backfill: sgbucket.FeedResume, CheckpointPrefix: "chk", Terminator: f.Term, DoneChan: f.Done}, f.callback, nil)
		if err != nil {
			c.add("C15", "start", "starting a resumed live run failed: %v", err)
			break
		}
		w.run, w.runHandle = f, hi
		w.runs++
	case "stop":
		if w.run == nil {
			return "skip", nil
		}
		vrt.Quiesce()
		w.absorb(w.run.Take())
		w.run.CloseTerm()
		vrt.Recv((<-chan struct{})(w.run.Done))
		w.absorb(w.run.Take())
		w.run = nil
	case "dump":
		if w.run != nil {
			return "skip", nil
		}
		f := NewFeedRec("cp")
		err = a.StartDCPFeed(ctx, sgbucket.FeedArguments{ID: "cp", Backfill: sgbucket.FeedResume, Dump: true, CheckpointPrefix: "chk", DoneChan: f.Done}, f.callback, nil)
		if err != nil {
			c.add("C15", "start", "starting a resumed dump run failed: %v", err)
			break
		}
		vrt.Recv((<-chan struct{})(f.Done))
		w.absorb(f.Events)
		w.runs++
		complete = true
	case "reopen":
		if w.run != nil {
			vrt.Quiesce()
			w.absorb(w.run.Take())
		}
		for _, h := range w.h {
			h.Close(ctx)
		}
		vrt.Quiesce()
		if w.run != nil {
			w.absorb(w.run.Take())
			if !w.run.DoneClosed() {
				c.add("C16", "done", "closing the last handle of the on-disk bucket did not end the checkpointed live run")
			}
			w.run.CloseTerm()
			w.run = nil
		}
		w.open(rosmar.ReOpenExisting)
	}
	vrt.Quiesce()
	result := "ok"
	if err != nil {
		result = "err:" + ErrClass(err)
	}
	if w.run != nil {
		w.absorb(w.run.Take())
		complete = true // a live run with nothing left to deliver
	}
	d, derr := rosmar.VerifDumpAll(w.h[0])
	if derr != nil {
		return result, c.out
	}
	if complete && w.runs > 0 {
		for _, r := range d.Docs {
			if r.Collection != cpColl || r.Key == cpKey {
				continue
			}
			if !w.delivered[fmt.Sprintf("%s@%d", r.Key, r.Cas)] {
				c.add("C15", "skipped", "after %d run(s) the current version of %s (CAS %d, body=%v) has been delivered by none of them; delivered so far: %s", w.runs, r.Key, r.Cas, r.HasValue, w.deliveredString())
			}
		}
	}
	// the persisted checkpoint never exceeds what was delivered
	if r := rowsOf(d)[cpColl+"/"+cpKey]; r != nil && r.HasValue {
		var cp struct {
			LastSeq uint64 `json:"last_seq"`
		}
		if json.Unmarshal(r.Value, &cp) == nil && cp.LastSeq > w.maxCas {
			c.add("C15", "checkpoint-ahead", "the persisted checkpoint says %d, the highest CAS any run delivered is %d", cp.LastSeq, w.maxCas)
		}
	}
	return result, c.out
}

func (w *CpWorld) deliveredString() string {
	var ks []string
	for k := range w.delivered {
		ks = append(ks, k)
	}
	sort.Strings(ks)
	return strings.Join(ks, " ")
}

func (w *CpWorld) Canon() string {
	d, err := rosmar.VerifDumpAll(w.h[0])
	if err != nil {
		return "?"
	}
	// CAS values -> ranks over everything stored, delivered or check-pointed
	var cas []uint64
	var cp uint64
	for _, r := range d.Docs {
		if r.Collection != cpColl {
			continue
		}
		cas = append(cas, r.Cas)
		if r.Key == cpKey && r.HasValue {
			var c struct {
				LastSeq uint64 `json:"last_seq"`
			}
			if json.Unmarshal(r.Value, &c) == nil {
				cp = c.LastSeq
			}
		}
	}
	cas = append(cas, cp, w.maxCas)
	sort.Slice(cas, func(i, j int) bool { return cas[i] < cas[j] })
	rank := map[uint64]int{}
	for _, v := range cas {
		if _, ok := rank[v]; !ok {
			rank[v] = len(rank)
		}
	}
	var b strings.Builder
	for _, r := range d.Docs {
		if r.Collection != cpColl {
			continue
		}
		seen := w.delivered[fmt.Sprintf("%s@%d", r.Key, r.Cas)]
		fmt.Fprintf(&b, "%s:%v/x=%v cas#%d seen=%v;", r.Key, r.HasValue, r.Xattrs != nil, rank[r.Cas], seen)
	}
	fmt.Fprintf(&b, "cp#%d max#%d run=%v/%d runs>0=%v feeds=%v caches=%s", rank[cp], rank[w.maxCas], w.run != nil, w.runHandle, w.runs > 0, rosmar.VerifFeedCounts(w.h[0]), CacheState(w.h[0]))
	return b.String()
}

func (w *CpWorld) Close() {
	if w.run != nil {
		w.run.CloseTerm()
	}
	vrt.Quiesce()
	_ = w.h[0].CloseAndDelete(ctx)
	vrt.Quiesce()
}
