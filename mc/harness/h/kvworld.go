package h

import (
	"bytes"
	"encoding/json"
	"fmt"
	"os"
	"reflect"
	"sort"
	"time"

	sgbucket "github.com/couchbase/sg-bucket"
	"github.com/couchbaselabs/rosmar"
	"github.com/couchbaselabs/rosmar/vrt"
)

var (
	NameA = sgbucket.DataStoreNameImpl{Scope: "sc", Collection: "A"}
	NameB = sgbucket.DataStoreNameImpl{Scope: "sc", Collection: "B"}
)

// KVWorld is the closed driver of the shared key-value exploration: one bucket b1 reached through
// two handles, subject collection sc.A (keys k, j) observed by two live feeds (one per handle, one
// per feed API), and - if cfg.Witness - same-key witnesses in sc.B and in a second bucket b2.
type KVWorld struct {
	Cfg   Config
	H     []*rosmar.Bucket
	A, B  []*rosmar.Collection
	H2    *rosmar.Bucket
	HB    *rosmar.Bucket // a further handle on b1 that never opens a collection: bucket-level operations go through it
	A2    *rosmar.Collection
	Feeds []*FeedRec // [0]=A via h0 (collection API) [1]=A via h1 (bucket API) [2]=B [3]=b2.A
	ExtraBackfills bool
}

func coll(b *rosmar.Bucket, name sgbucket.DataStoreName) *rosmar.Collection {
	ds, err := b.NamedDataStore(name)
	must(err)
	return ds.(*rosmar.Collection)
}

func J(s string) []byte { return []byte(s) }

func NewKVWorld(cfg Config) *KVWorld {
	w := &KVWorld{Cfg: cfg}
	if cfg.MaxDocSize > 0 {
		rosmar.MaxDocSize = cfg.MaxDocSize
	} else {
		rosmar.MaxDocSize = 20 * 1024 * 1024
	}
	n := 1
	if cfg.TwoHandles {
		n = 2
	}
	for i := 0; i < n; i++ {
		b, err := rosmar.OpenBucket(BucketURL(cfg, "b1"), "b1", rosmar.CreateOrOpen)
		must(err)
		w.H = append(w.H, b)
	}
	for _, b := range w.H {
		w.A = append(w.A, coll(b, NameA))
		w.B = append(w.B, coll(b, NameB))
	}
	hb, err := rosmar.OpenBucket(BucketURL(cfg, "b1"), "b1", rosmar.CreateOrOpen)
	must(err)
	w.HB = hb
	// a KeysOnly live feed, registered before the ordinary ones: it shares the collection's events with them
	fk := NewFeedRec("fAk")
	must(w.A[0].StartDCPFeed(ctx, sgbucket.FeedArguments{ID: "fAk", Backfill: sgbucket.FeedNoBackfill, KeysOnly: true, Terminator: fk.Term, DoneChan: fk.Done}, fk.callback, nil))
	f0, err := StartLiveFeed(w.A[0], "fA0")
	must(err)
	w.Feeds = append(w.Feeds, f0)
	f1, err := StartLiveFeedViaBucket(w.H[len(w.H)-1], "fA1", NameA)
	must(err)
	w.Feeds = append(w.Feeds, f1)
	if cfg.Witness {
		b2, err := rosmar.OpenBucket(BucketURL(cfg, "b2"), "b2", rosmar.CreateOrOpen)
		must(err)
		w.H2 = b2
		w.A2 = coll(b2, NameA)
		fb, err := StartLiveFeed(w.B[0], "fB")
		must(err)
		f2, err := StartLiveFeed(w.A2, "fA2")
		must(err)
		w.Feeds = append(w.Feeds, fb, f2)
		for _, c := range []*rosmar.Collection{w.B[0], w.A2} {
			_, err = c.WriteWithXattrs(ctx, "k", 5000, 0, J(`{"w":1}`), map[string][]byte{"_s": J(`{"w":"s"}`), "u": J(`{"w":"u"}`)}, nil, nil)
			must(err)
			_, err = c.WriteWithXattrs(ctx, "j", 0, 0, J(`{"w":2}`), map[string][]byte{"_s": J(`{"w":"js"}`)}, nil, nil)
			must(err)
			must(c.Delete("j"))
		}
	}
	w.Feeds = append(w.Feeds, fk)
	vrt.Quiesce()
	for _, f := range w.Feeds {
		f.Take()
	}
	return w
}

// Handle returns the collection view an operation with the given alphabet index goes through.
func (w *KVWorld) Handle(i int) *rosmar.Collection { return w.A[i%len(w.A)] }

func (w *KVWorld) Close() {
	for _, f := range w.Feeds {
		f.CloseTerm()
	}
	vrt.Quiesce()
	_ = w.H[0].CloseAndDelete(ctx)
	if w.H2 != nil {
		_ = w.H2.CloseAndDelete(ctx)
	}
	vrt.Quiesce()
	if w.Cfg.Disk {
		_ = os.RemoveAll(w.Cfg.Root)
	}
}

type KVObs struct {
	Dump      rosmar.VerifDump     `json:"-"`
	Rows      map[string]*rosmar.VerifDocRow `json:"-"` // "coll/key" in b1
	K, J      DocObs
	W         map[string]DocObs    // witnesses
	WRows     string               // printed raw rows of witnesses (B and b2)
	Events    map[string][]EventObs
	ReadsPure bool
	Backfill  []EventObs // Dump feed of A from CAS 0 (markers included)
	BackfillFrom map[uint64][]EventObs // extra Dump feeds from other start CAS values (C09 runs only)
	BackfillKeysOnly []EventObs        // KeysOnly Dump feed from CAS 0 (C09 runs only)
	BackfillErr string
	FeedMapNil []bool
	FeedCounts map[string]int
	NextExp   uint32
	HasTimer  bool
	Timers    []int64
	Now       int64
	CollIDA   uint32
	MaxCasAll uint64 // highest CAS stored or recorded anywhere in b1 and b2
	MinCasA   uint64
}

func rowsOf(d rosmar.VerifDump) map[string]*rosmar.VerifDocRow {
	m := map[string]*rosmar.VerifDocRow{}
	for i := range d.Docs {
		r := &d.Docs[i]
		m[r.Collection+"/"+r.Key] = r
	}
	return m
}

func printRows(d rosmar.VerifDump, collFilter string) string {
	var b bytes.Buffer
	for _, r := range d.Docs {
		if collFilter != "" && r.Collection != collFilter {
			continue
		}
		fmt.Fprintf(&b, "%s/%s v=%q has=%v cas=%d exp=%d x=%q json=%v tomb=%d rev=%d\n", r.Collection, r.Key, r.Value, r.HasValue, r.Cas, r.Exp, r.Xattrs, r.IsJSON, r.Tombstone, r.RevSeqNo)
	}
	return b.String()
}

func (w *KVWorld) Observe() KVObs {
	var o KVObs
	vrt.Quiesce()
	d, err := rosmar.VerifDumpAll(w.H[0])
	must(err)
	o.Dump = d
	o.Rows = rowsOf(d)
	a0, a1 := w.A[0], w.A[len(w.A)-1]
	o.K = ObserveDoc(a0, a1, "k")
	o.J = ObserveDoc(a1, a0, "j")
	o.K.Row = o.Rows["sc.A/k"]
	o.J.Row = o.Rows["sc.A/j"]
	if w.Cfg.Witness {
		o.W = map[string]DocObs{}
		b0, b1 := w.B[0], w.B[len(w.B)-1]
		o.W["B.k"] = ObserveDoc(b0, b1, "k")
		o.W["B.j"] = ObserveDoc(b1, b0, "j")
		o.W["b2.k"] = ObserveDoc(w.A2, w.A2, "k")
		o.W["b2.j"] = ObserveDoc(w.A2, w.A2, "j")
		d2, err := rosmar.VerifDumpAll(w.H2)
		must(err)
		o.WRows = printRows(d, "sc.B") + "--b2--\n" + printRows(d2, "")
	}
	bf, err := DumpFeed(a1, 0, false)
	if err != nil {
		o.BackfillErr = err.Error()
	}
	o.Backfill = bf
	for i := range bf {
		e := bf[i]
		switch e.Key {
		case "k":
			o.K.Backfill = &bf[i]
		case "j":
			o.J.Backfill = &bf[i]
		}
	}
	if w.ExtraBackfills {
		ko, err := DumpFeed(a1, 0, true)
		if err != nil {
			o.BackfillErr = err.Error()
		}
		o.BackfillKeysOnly = ko
		// start CAS values: the oldest stored CAS, the newest, one past the newest, and the CAS after the oldest
		var cs []uint64
		for _, r := range d.Docs {
			if r.Collection == "sc.A" {
				cs = append(cs, r.Cas)
			}
		}
		if len(cs) > 0 {
			sort.Slice(cs, func(i, j int) bool { return cs[i] < cs[j] })
			starts := map[uint64]bool{cs[0]: true, cs[0] + 1: true, cs[len(cs)-1]: true, cs[len(cs)-1] + 1: true}
			o.BackfillFrom = map[uint64][]EventObs{}
			for s := range starts {
				if s <= 1 {
					continue // 1 is the FeedResume marker
				}
				evs, err := DumpFeed(a0, s, false)
				if err != nil {
					o.BackfillErr = err.Error()
				}
				o.BackfillFrom[s] = evs
			}
		}
	}
	vrt.Quiesce()
	d2, err := rosmar.VerifDumpAll(w.H[0])
	must(err)
	o.ReadsPure = reflect.DeepEqual(d.Docs, d2.Docs) && reflect.DeepEqual(d.Collections, d2.Collections) && d.BucketLastCas == d2.BucketLastCas
	o.Events = map[string][]EventObs{}
	for _, f := range w.Feeds {
		o.Events[f.Name] = append([]EventObs(nil), f.Take()...)
	}
	for _, h := range w.H {
		o.FeedMapNil = append(o.FeedMapNil, rosmar.VerifHandleFeedMapNil(h))
	}
	o.FeedCounts = rosmar.VerifFeedCounts(w.H[0])
	o.NextExp, o.HasTimer = rosmar.VerifExpiryState(w.H[0])
	o.Timers = vrt.PendingTimers()
	o.Now = vrt.NowNanos()
	o.CollIDA = w.A[0].GetCollectionID()
	dumps := []rosmar.VerifDump{d}
	if w.H2 != nil {
		d3, err := rosmar.VerifDumpAll(w.H2)
		must(err)
		dumps = append(dumps, d3)
	}
	for _, dd := range dumps {
		if dd.BucketLastCas > o.MaxCasAll {
			o.MaxCasAll = dd.BucketLastCas
		}
		for _, c := range dd.Collections {
			if c.LastCas > o.MaxCasAll {
				o.MaxCasAll = c.LastCas
			}
		}
		for _, r := range dd.Docs {
			if r.Cas > o.MaxCasAll {
				o.MaxCasAll = r.Cas
			}
		}
	}
	for _, r := range d.Docs {
		if r.Collection == "sc.A" && (o.MinCasA == 0 || r.Cas < o.MinCasA) {
			o.MinCasA = r.Cas
		}
	}
	return o
}

func NowSecs() uint32 { return uint32(vrt.NowNanos() / int64(time.Second)) }

// ReopenDifferential (on-disk only): close every handle of b1 (its last Close shuts the store down),
// open it again in the same process, and compare everything a client can learn about the subject
// collection - every row column, the high-water marks, every read API on k and j through two fresh
// handles, a Dump backfill - with the observation taken before the close. No expected value is
// hand-written: the state reached from the initial state is compared with itself seen from elsewhere.
// It consumes the world (the old handles are closed); the caller discards the world afterwards.
func (w *KVWorld) ReopenDifferential(opName string, post KVObs) (vs []Violation) {
	if !w.Cfg.Disk {
		return nil
	}
	bad := func(props []string, field, detail string) {
		for _, p := range props {
			vs = append(vs, Violation{Prop: p, Op: opName, Pre: "reopen", Field: field, Detail: detail})
		}
	}
	data := []string{"C13", "C01"}
	for _, f := range w.Feeds {
		if f.Name != "fA2" {
			f.CloseTerm()
		}
	}
	vrt.Quiesce()
	for _, h := range w.H {
		h.Close(ctx)
	}
	w.HB.Close(ctx)
	vrt.Quiesce()
	var hs []*rosmar.Bucket
	for i := 0; i < 2; i++ {
		b, err := rosmar.OpenBucket(BucketURL(w.Cfg, "b1"), "b1", rosmar.ReOpenExisting)
		if err != nil {
			bad([]string{"C13"}, "reopen", "ReOpenExisting after the last Close failed: "+err.Error())
			if len(hs) == 0 {
				// leave the world closable
				b, err = rosmar.OpenBucket(BucketURL(w.Cfg, "b1"), "b1", rosmar.CreateOrOpen)
				must(err)
			} else {
				b = hs[0]
			}
		}
		hs = append(hs, b)
	}
	w.H = hs
	w.HB = hs[0]
	w.A, w.B = nil, nil
	for _, b := range w.H {
		w.A = append(w.A, coll(b, NameA))
		w.B = append(w.B, coll(b, NameB))
	}
	if len(vs) > 0 {
		return vs
	}
	d, err := rosmar.VerifDumpAll(w.H[0])
	must(err)
	if got, want := printRows(d, ""), printRows(post.Dump, ""); got != want {
		bad(data, "rows", fmt.Sprintf("stored rows differ after close + reopen:\nbefore:\n%safter:\n%s", want, got))
	}
	if d.BucketLastCas != post.Dump.BucketLastCas || !reflect.DeepEqual(d.Collections, post.Dump.Collections) {
		bad(data, "marks", fmt.Sprintf("high-water marks / collection table differ after close + reopen: before bucket=%d %+v, after bucket=%d %+v", post.Dump.BucketLastCas, post.Dump.Collections, d.BucketLastCas, d.Collections))
	}
	a0, a1 := w.A[0], w.A[1]
	for _, kk := range []struct {
		key  string
		was  DocObs
		a, b *rosmar.Collection
	}{{"k", post.K, a0, a1}, {"j", post.J, a1, a0}} {
		now := ObserveDoc(kk.a, kk.b, kk.key)
		now.Row, now.Backfill = nil, nil
		was := kk.was
		was.Row, was.Backfill = nil, nil
		if jsonOf(now) != jsonOf(was) {
			bad(data, "reads", fmt.Sprintf("reads of %s differ after close + reopen:\nbefore: %s\nafter:  %s", kk.key, jsonOf(was), jsonOf(now)))
		}
	}
	bf, err := DumpFeed(a1, 0, false)
	if err != nil || jsonOf(bf) != jsonOf(post.Backfill) {
		bad([]string{"C13", "C09"}, "backfill", fmt.Sprintf("Dump backfill differs after close + reopen (err=%v):\nbefore: %s\nafter:  %s", err, jsonOf(post.Backfill), jsonOf(bf)))
	}
	// (that a pending expiry still fires after the reopen is judged where it can be observed: by the expiry
	// world's reopen + clock advance and by the crash verifier - not by looking at the timer here)
	return vs
}

func jsonOf(v any) string {
	b, _ := json.Marshal(v)
	return string(b)
}
