// Package h is the model-checking harness: worlds (closed drivers around real rosmar buckets),
// full observations, the executable specification and the exploration engines.
package h

import (
	"context"
	"errors"
	"fmt"
	"os"
	"path/filepath"
	"sort"
	"strings"

	sgbucket "github.com/couchbase/sg-bucket"
	"github.com/couchbaselabs/rosmar"
	"github.com/couchbaselabs/rosmar/vrt"
)

var ctx = context.Background()

// XNames is every xattr name the alphabets ever use, plus the two virtual ones.
var XNames = []string{"_s", "_t", "u", "_s2", "$document", "$document.revid"}
var RealXNames = []string{"_s", "_t", "u", "_s2"}

// SubPaths are the sub-document paths every observation reads back through GetSubDocRaw.
var SubPaths = []string{"v", "a", "a.z", "nope"}

type Config struct {
	Disk       bool   `json:"disk"`
	Root       string `json:"-"` // scratch directory for on-disk buckets
	MaxDocSize int    `json:"maxDocSize,omitempty"`
	Witness    bool   `json:"witness"` // pre-load witness collection B and witness bucket b2
	TwoHandles bool   `json:"twoHandles"`
}

var scratchSeq int

// ScratchRoot is where on-disk buckets of this process live (outside /repo, /verif and /tmp).
var ScratchRoot = func() string {
	home, _ := os.UserHomeDir()
	base := os.Getenv("VERIF_SCRATCH")
	if base == "" {
		base = filepath.Join(home, ".cache", "verif-work", "scratch")
	}
	return filepath.Join(base, fmt.Sprintf("p%d", os.Getpid()))
}()

func NewScratchDir() string {
	scratchSeq++
	d := filepath.Join(ScratchRoot, fmt.Sprintf("x%d", scratchSeq))
	_ = os.RemoveAll(d)
	if err := os.MkdirAll(d, 0o755); err != nil {
		panic(err)
	}
	return d
}

func CleanupScratch() { _ = os.RemoveAll(ScratchRoot) }

func BucketURL(cfg Config, name string) string {
	if !cfg.Disk {
		return rosmar.InMemoryURL
	}
	return "rosmar://" + filepath.Join(cfg.Root, name)
}

// ---------------------------------------------------------------------------------------------
// feeds

type EventObs struct {
	Opcode   string            `json:"op"`
	Key      string            `json:"key"`
	Body     []byte            `json:"body"`
	HasBody  bool              `json:"hasBody"`
	Xattrs   map[string]string `json:"x,omitempty"`
	DataType uint8             `json:"dt"`
	Cas      uint64            `json:"cas"`
	Expiry   uint32            `json:"exp"`
	RevNo    uint64            `json:"rev"`
	CollID   uint32            `json:"coll"`
	Step     int               `json:"-"`
}

func (e EventObs) String() string {
	return fmt.Sprintf("%s %s body=%q x=%v dt=%d cas=%d exp=%d rev=%d", e.Opcode, e.Key, e.Body, e.Xattrs, e.DataType, e.Cas, e.Expiry, e.RevNo)
}

func decodeEvent(ev sgbucket.FeedEvent) EventObs {
	o := EventObs{Opcode: ev.Opcode.String(), Key: string(ev.Key), DataType: ev.DataType, Cas: ev.Cas, Expiry: ev.Expiry, RevNo: ev.RevNo, CollID: ev.CollectionID, Step: vrt.Step()}
	body := ev.Value
	if ev.DataType&sgbucket.FeedDataTypeXattr != 0 {
		b, xs, err := sgbucket.DecodeValueWithAllXattrs(ev.Value)
		if err != nil {
			o.Xattrs = map[string]string{"!decode-error": err.Error()}
		} else {
			body = b
			o.Xattrs = map[string]string{}
			for k, v := range xs {
				o.Xattrs[k] = string(v)
			}
		}
	}
	if len(body) > 0 {
		o.Body = append([]byte(nil), body...)
		o.HasBody = true
	}
	return o
}

type FeedRec struct {
	Name       string
	Events     []EventObs
	seen       int
	Term       chan bool
	Done       chan struct{}
	TermClosed bool
	AfterDone  int // callbacks observed after the done channel was seen closed
	doneSeen   bool
	Hold       chan struct{} // if non-nil, the callback blocks in its first non-marker event until Release
	Holding    bool
	released   bool
}

func (f *FeedRec) callback(ev sgbucket.FeedEvent) bool {
	if f.doneSeen {
		f.AfterDone++
	}
	f.Events = append(f.Events, decodeEvent(ev))
	if f.Hold != nil && !f.released && ev.Opcode != sgbucket.FeedOpBeginBackfill && ev.Opcode != sgbucket.FeedOpEndBackfill {
		f.Holding = true
		vrt.Recv((<-chan struct{})(f.Hold))
		f.Holding = false
		f.released = true
	}
	return true
}

// Release lets a held callback return.
func (f *FeedRec) Release() {
	if f.Hold != nil && !f.released {
		close(f.Hold)
	}
}

// Take returns the events that arrived since the last Take.
func (f *FeedRec) Take() []EventObs {
	out := f.Events[f.seen:]
	f.seen = len(f.Events)
	return out
}

// DoneClosed polls the done channel without blocking.
func (f *FeedRec) DoneClosed() bool {
	select {
	case <-f.Done:
		f.doneSeen = true
		return true
	default:
		return false
	}
}

func NewFeedRec(name string) *FeedRec {
	return &FeedRec{Name: name, Term: make(chan bool), Done: make(chan struct{})}
}

// StartLiveFeed starts a live (no backfill) feed on one collection through the collection API.
func StartLiveFeed(c *rosmar.Collection, name string) (*FeedRec, error) {
	f := NewFeedRec(name)
	err := c.StartDCPFeed(ctx, sgbucket.FeedArguments{ID: name, Backfill: sgbucket.FeedNoBackfill, Terminator: f.Term, DoneChan: f.Done}, f.callback, nil)
	return f, err
}

// StartLiveFeedViaBucket starts a live feed through the bucket API with an explicit scope map.
func StartLiveFeedViaBucket(b *rosmar.Bucket, name string, colls ...sgbucket.DataStoreName) (*FeedRec, error) {
	f := NewFeedRec(name)
	scopes := map[string][]string{}
	for _, c := range colls {
		scopes[c.ScopeName()] = append(scopes[c.ScopeName()], c.CollectionName())
	}
	err := b.StartDCPFeed(ctx, sgbucket.FeedArguments{ID: name, Backfill: sgbucket.FeedNoBackfill, Terminator: f.Term, DoneChan: f.Done, Scopes: scopes}, f.callback, nil)
	return f, err
}

// DumpFeed runs a Dump feed with the given backfill start to completion and returns its events.
func DumpFeed(c *rosmar.Collection, start uint64, keysOnly bool) ([]EventObs, error) {
	f := NewFeedRec("dump")
	err := c.StartDCPFeed(ctx, sgbucket.FeedArguments{ID: "dump", Backfill: start, Dump: true, KeysOnly: keysOnly, DoneChan: f.Done}, f.callback, nil)
	if err != nil {
		return nil, err
	}
	vrt.Recv((<-chan struct{})(f.Done))
	return f.Events, nil
}

func (f *FeedRec) CloseTerm() {
	if !f.TermClosed {
		f.TermClosed = true
		close(f.Term)
	}
}

// ---------------------------------------------------------------------------------------------
// error classes

func ErrClass(err error) string {
	if err == nil {
		return ""
	}
	var me sgbucket.MissingError
	var xe sgbucket.XattrMissingError
	var ce sgbucket.CasMismatchErr
	var te sgbucket.DocTooBigErr
	switch {
	case errors.As(err, &ce):
		return "casmismatch"
	case errors.As(err, &xe):
		return "xattrmissing"
	case errors.As(err, &me):
		return "missing"
	case errors.As(err, &te):
		return "toobig"
	case errors.Is(err, sgbucket.ErrKeyExists):
		return "keyexists"
	case errors.Is(err, rosmar.ErrBucketClosed):
		return "closed"
	case errors.Is(err, sgbucket.ErrPathNotFound):
		return "pathnotfound"
	case errors.Is(err, sgbucket.ErrPathExists):
		return "pathexists"
	case errors.Is(err, sgbucket.ErrPathMismatch):
		return "pathmismatch"
	case errors.Is(err, sgbucket.ErrNeedXattrs), errors.Is(err, sgbucket.ErrNeedBody), errors.Is(err, sgbucket.ErrNilXattrValue),
		errors.Is(err, sgbucket.ErrDeleteXattrOnDocumentInsert), errors.Is(err, sgbucket.ErrUpsertAndDeleteSameXattr),
		errors.Is(err, sgbucket.ErrDeleteXattrOnTombstone):
		return "badargs"
	case errors.Is(err, os.ErrExist):
		return "exists"
	case errors.Is(err, os.ErrNotExist):
		return "notexist"
	}
	var de *rosmar.DatabaseError
	if errors.As(err, &de) {
		return "dberror"
	}
	if strings.Contains(err.Error(), rosmar.ErrBucketClosed.Error()) {
		return "closed" // wrapped with %v by NamedDataStore
	}
	if strings.Contains(err.Error(), "database is closed") {
		return "dbclosed"
	}
	return "other"
}

// ---------------------------------------------------------------------------------------------
// observation of one key

type ReadObs struct {
	Body   []byte            `json:"body,omitempty"`
	Xattrs map[string]string `json:"x,omitempty"`
	Cas    uint64            `json:"cas"`
	Exp    uint32            `json:"exp,omitempty"`
	Bool   bool              `json:"bool,omitempty"`
	Err    string            `json:"err,omitempty"`
	ErrMsg string            `json:"-"`
}

type DocObs struct {
	Row      *rosmar.VerifDocRow `json:"row"`
	GetRaw   ReadObs             `json:"getRaw"`
	Get      ReadObs             `json:"get"`
	Exists   ReadObs             `json:"exists"`
	Expiry   ReadObs             `json:"expiry"`
	GWX      ReadObs             `json:"gwx"`
	GX       ReadObs             `json:"gx"`
	Sub      map[string]ReadObs  `json:"sub,omitempty"` // GetSubDocRaw for a few fixed paths
	Backfill *EventObs           `json:"backfill"`
}

func readObs(err error) ReadObs {
	r := ReadObs{Err: ErrClass(err)}
	if err != nil {
		r.ErrMsg = err.Error()
	}
	return r
}

func xmap(m map[string][]byte) map[string]string {
	if m == nil {
		return nil
	}
	out := map[string]string{}
	for k, v := range m {
		out[k] = string(v)
	}
	return out
}

// ObserveDoc reads one key through every read API; ca and cb are two views (handles) of one collection.
func ObserveDoc(ca, cb *rosmar.Collection, key string) DocObs {
	var o DocObs
	body, cas, err := ca.GetRaw(key)
	o.GetRaw = readObs(err)
	o.GetRaw.Body, o.GetRaw.Cas = body, cas
	var raw []byte
	cas, err = cb.Get(key, &raw)
	o.Get = readObs(err)
	o.Get.Body, o.Get.Cas = raw, cas
	ex, err := cb.Exists(key)
	o.Exists = readObs(err)
	o.Exists.Bool = ex
	exp, err := ca.GetExpiry(ctx, key)
	o.Expiry = readObs(err)
	o.Expiry.Exp = exp
	b, xs, cas, err := cb.GetWithXattrs(ctx, key, XNames)
	o.GWX = readObs(err)
	o.GWX.Body, o.GWX.Xattrs, o.GWX.Cas = b, xmap(xs), cas
	xs2, cas, err := ca.GetXattrs(ctx, key, XNames)
	o.GX = readObs(err)
	o.GX.Xattrs, o.GX.Cas = xmap(xs2), cas
	o.Sub = map[string]ReadObs{}
	for _, p := range SubPaths {
		v, cas, err := cb.GetSubDocRaw(ctx, key, p)
		r := readObs(err)
		r.Body, r.Cas = v, cas
		o.Sub[p] = r
	}
	return o
}

func SortedKeys[V any](m map[string]V) []string {
	var ks []string
	for k := range m {
		ks = append(ks, k)
	}
	sort.Strings(ks)
	return ks
}

func must(err error) {
	if err != nil {
		panic(err)
	}
}
