package h

import (
	"encoding/json"
	"fmt"
	"strings"
	"time"

	"github.com/couchbaselabs/rosmar"
	"github.com/couchbaselabs/rosmar/vrt"
)

// Generic explicit-state BFS over a "world": a closed driver around the real implementation that
// carries its own specification model. A state is an operation list; successors are produced by
// replaying the list on a fresh world plus one operation (DESIGN §2.3).

type GenWorld interface {
	Alphabet(tier int) []string
	// Apply executes one operation against the implementation, updates the model, and returns a
	// short result string plus the violations detected on this transition. "skip" = not applicable
	// in this state (self-loop, not counted).
	Apply(op string) (result string, viols []Violation)
	Canon() string
	Close()
	// Bucket returns a bucket whose connection use decides the no-yield rule (may be nil).
	Bucket() *rosmar.Bucket
}

// PostChecker is implemented by worlds whose checks have side effects on the implementation (a
// non-stale view query updates the index): the state's identity (Canon) is taken after the
// operation and BEFORE PostCheck, and PostCheck is not run while a path is being replayed, so that
// queries sit only where the path puts them ("all placements of view queries inside the history").
type PostChecker interface {
	PostCheck(op string) []Violation
}

var genWorlds = map[string]func(cfg Config) GenWorld{}

func RegisterWorld(kind string, f func(cfg Config) GenWorld) { genWorlds[kind] = f }

type GenJob struct {
	Kind string   `json:"kind"`
	Cfg  Config   `json:"cfg"`
	Path []string `json:"path"`
	Tier int      `json:"tier"`
	Only []string `json:"only,omitempty"`
}

type GenTransition struct {
	Op         string      `json:"op"`
	Result     string      `json:"result"`
	Violations []Violation `json:"violations,omitempty"`
	Succ       string      `json:"succ"`
	Abnormal   string      `json:"abnormal,omitempty"`
}

type GenJobResult struct {
	State string          `json:"state"`
	Trans []GenTransition `json:"trans"`
	Err   string          `json:"err,omitempty"`
}

func ExpandGen(job GenJob) GenJobResult {
	var out GenJobResult
	mk := genWorlds[job.Kind]
	if mk == nil {
		out.Err = "unknown world " + job.Kind
		return out
	}
	var alphabet []string
	first := true
	for n := 0; first || n < len(alphabet); n++ {
		var tr GenTransition
		var w GenWorld
		resetProcess()
		cfg := job.Cfg
		cfg.Root = NewScratchDir()
		skip := false
		oc := vrt.Run(nil, schedOpts(func() *rosmar.Bucket {
			if w == nil {
				return nil
			}
			return w.Bucket()
		}), func() {
			w = mk(cfg)
			if first {
				alphabet = w.Alphabet(job.Tier)
				if job.Only != nil {
					var f []string
					for _, a := range alphabet {
						if inList(a, job.Only) {
							f = append(f, a)
						}
					}
					alphabet = f
				}
			}
			for _, op := range job.Path {
				res, viols := w.Apply(op)
				if res == "skip" || len(viols) > 0 && false {
					panic(fmt.Sprintf("replayed path op %s is not applicable", op))
				}
				vrt.Quiesce()
			}
			if first {
				out.State = w.Canon()
			}
			if len(alphabet) == 0 {
				skip = true
				w.Close()
				return
			}
			tr.Op = alphabet[n]
			res, viols := w.Apply(tr.Op)
			if res == "skip" {
				skip = true
				w.Close()
				return
			}
			vrt.Quiesce()
			tr.Result, tr.Violations = res, viols
			tr.Succ = w.Canon()
			if pc, ok := w.(PostChecker); ok {
				tr.Violations = append(tr.Violations, pc.PostCheck(tr.Op)...)
			}
			w.Close()
		})
		first = false
		removeAll(cfg.Root)
		switch {
		case oc.Diverged != "":
			out.Err = oc.Diverged
		case oc.Panic != "":
			tr.Abnormal = "panic: " + oc.Panic
			if len(oc.PanicLocks) > 0 {
				tr.Abnormal += fmt.Sprintf("\n[locks left held by the panicking goroutine: %v]", oc.PanicLocks)
			}
			if strings.Contains(oc.Panic, "replayed path op") {
				out.Err = oc.Panic
			}
		case oc.Deadlock:
			tr.Abnormal = fmt.Sprintf("deadlock: blocked=%v held=%v", oc.Blocked, oc.HeldLocks)
		case oc.StepLimit:
			tr.Abnormal = "livelock: step horizon exceeded"
		case len(oc.Leaked) > 0:
			tr.Abnormal = fmt.Sprintf("leaked goroutines after shutdown: %v", oc.Leaked)
		case len(oc.HeldLocks) > 0:
			tr.Abnormal = fmt.Sprintf("locks still held after shutdown: %v", oc.HeldLocks)
		}
		if skip && tr.Abnormal == "" {
			continue
		}
		if tr.Op == "" && n < len(alphabet) {
			tr.Op = alphabet[n]
		}
		out.Trans = append(out.Trans, tr)
	}
	return out
}

func init() {
	RegisterHandler("gen", func(raw json.RawMessage) (any, error) {
		var job GenJob
		if err := json.Unmarshal(raw, &job); err != nil {
			return nil, err
		}
		return ExpandGen(job), nil
	})
}

type GenReplay struct {
	Kind  string   `json:"kind"`
	World string   `json:"world"`
	Cfg   Config   `json:"cfg"`
	Path  []string `json:"path"`
	Op    string   `json:"op"`
}

// Interference, when set, names the operations of a world that are addressed to ANOTHER collection.
// Under property C11 a violation (of any property) on a path containing such operations is re-run
// with them removed; if it then disappears, the other collection's operation changed what this
// collection returns - a C11 violation, attributed precisely.
var Interference = map[string]func(op string) bool{
	"views": func(op string) bool { return strings.HasPrefix(op, "B.") },
}

// RunGenBFS explores a generic world breadth-first up to depth.
func RunGenBFS(rep *Report, pool *Pool, kind string, cfg Config, depth, tier int, deadline time.Time) {
	type cand struct {
		path []string
		op   string
		v    Violation
	}
	var cands []cand
	interferes := Interference[kind]
	label := kind + "/" + ifs(cfg.Disk, "disk", "mem")
	frontier := [][]string{nil}
	seen := map[string]bool{}
	trans := 0
	maxDepth := 0
	for d := 0; d < depth && len(frontier) > 0; d++ {
		jobs := make([]any, len(frontier))
		for i, p := range frontier {
			jobs[i] = GenJob{Kind: kind, Cfg: cfg, Path: p, Tier: tier}
		}
		var next [][]string
		cut := false
		pool.Map("gen", jobs, 300*time.Second, func(o JobOutcome) {
			path := frontier[o.Index]
			if o.Err != "" {
				if o.Timeout {
					rep.AddViolation(Violation{Prop: "C20", Op: kind, Pre: "seq", Field: "hang", Detail: fmt.Sprintf("expanding %v hung natively", path)}, GenReplay{"gen", kind, cfg, path, ""})
					rep.Notes = append(rep.Notes, fmt.Sprintf("%s state %v: expansion timed out", label, path))
					rep.Exhaustive = false
				} else {
					rep.Internal = append(rep.Internal, fmt.Sprintf("%s job %v: %s", label, path, o.Err))
				}
				return
			}
			var res GenJobResult
			if err := json.Unmarshal(o.Data, &res); err != nil {
				rep.Internal = append(rep.Internal, err.Error())
				return
			}
			if res.Err != "" {
				rep.Internal = append(rep.Internal, fmt.Sprintf("%s job %v: %s", label, path, res.Err))
				return
			}
			if d == 0 {
				seen[res.State] = true
			}
			for _, tr := range res.Trans {
				trans++
				rep.Outcome(kind+":"+tr.Op, tr.Result)
				rp := GenReplay{"gen", kind, cfg, path, tr.Op}
				mine := false
				for _, v := range tr.Violations {
					if rep.AddViolation(v, rp) {
						mine = true
					}
					if rep.Prop == "C11" && interferes != nil && v.Prop != "C11" && len(cands) < 40 {
						for _, po := range path {
							if interferes(po) {
								cands = append(cands, cand{append([]string(nil), path...), tr.Op, v})
								break
							}
						}
					}
				}
				if tr.Abnormal != "" {
					rep.AddViolation(Violation{Prop: "C20", Op: kind + ":" + tr.Op, Pre: "seq", Field: abnormalKind(tr.Abnormal), Detail: tr.Abnormal}, rp)
					if rep.Prop != "C20" {
						// an execution that panics or deadlocks is also a failure of whatever is being checked here
						rep.AddViolation(Violation{Prop: rep.Prop, Op: kind + ":" + tr.Op, Pre: "seq", Field: abnormalKind(tr.Abnormal), Detail: tr.Abnormal}, rp)
					}
					continue
				}
				if mine {
					continue
				}
				if !seen[tr.Succ] {
					seen[tr.Succ] = true
					np := append(append([]string(nil), path...), tr.Op)
					next = append(next, np)
					if len(np) > maxDepth {
						maxDepth = len(np)
					}
					if len(np) >= 2 && len(np) <= 4 {
						rep.AddSample(map[string]any{"world": label, "path": np, "state": tr.Succ})
					}
				}
			}
			if time.Now().After(deadline) {
				cut = true
			}
		})
		if cut {
			rep.Exhaustive = false
			rep.Notes = append(rep.Notes, fmt.Sprintf("%s: internal deadline reached at depth %d; levels below were fully covered", label, d+1))
			frontier = nil
			break
		}
		frontier = next
	}
	// differential attribution of interference (C11)
	if len(cands) > 0 {
		jobs := make([]any, len(cands))
		for i, cd := range cands {
			var filtered []string
			for _, po := range cd.path {
				if !interferes(po) {
					filtered = append(filtered, po)
				}
			}
			jobs[i] = GenJob{Kind: kind, Cfg: cfg, Path: filtered, Tier: 1, Only: []string{cd.op}}
		}
		pool.Map("gen", jobs, 300*time.Second, func(o JobOutcome) {
			cd := cands[o.Index]
			var res GenJobResult
			if o.Err != "" || json.Unmarshal(o.Data, &res) != nil || res.Err != "" {
				return // the filtered path is not executable (an operation became inapplicable): no verdict
			}
			still := false
			for _, tr := range res.Trans {
				for _, v := range tr.Violations {
					if v.Sig() == cd.v.Sig() {
						still = true
					}
				}
			}
			if !still {
				rep.AddViolation(Violation{Prop: "C11", Op: kind + ":" + cd.op, Pre: "interference", Field: cd.v.Field,
					Detail: fmt.Sprintf("after %v, %s: %s -- and this happens only because of the operations addressed to another collection: without them (same path otherwise) it does not", cd.path, cd.op, cd.v.Detail)},
					GenReplay{"gen", kind, cfg, cd.path, cd.op})
			}
		})
		trans += len(cands)
	}
	rep.States += len(seen)
	rep.Transitions += trans
	rep.Executions += trans
	rep.Extra["bfs_"+label] = map[string]any{"depth_bound": depth, "states": len(seen), "transitions": trans, "max_path": maxDepth, "state_graph_closed_below_bound": len(frontier) == 0, "unexpanded_frontier": len(frontier)}
}

// ReplayGen re-executes a recorded witness of a generic world.
func ReplayGen(w Witness) int {
	var rp GenReplay
	_ = json.Unmarshal(w.Replay, &rp)
	recurs := 0
	for i := 0; i < 3; i++ {
		res := ExpandGen(GenJob{Kind: rp.World, Cfg: rp.Cfg, Path: rp.Path, Tier: 1, Only: []string{rp.Op}})
		if res.Err != "" {
			fmt.Println("replay error:", res.Err)
			return 2
		}
		for _, tr := range res.Trans {
			if i == 0 {
				fmt.Printf("world %s path %v + %s -> %s %s\n", rp.World, rp.Path, tr.Op, tr.Result, tr.Abnormal)
			}
			vs := tr.Violations
			if tr.Abnormal != "" {
				vs = append(vs, Violation{Prop: w.Prop, Op: rp.World + ":" + tr.Op, Pre: "seq", Field: abnormalKind(tr.Abnormal), Detail: tr.Abnormal})
			}
			for _, v := range vs {
				if i == 0 {
					fmt.Printf("  [%s] %s\n", v.Sig(), v.Detail)
				}
				if v.Sig() == w.Sig {
					recurs++
				}
			}
		}
	}
	if recurs == 3 {
		fmt.Printf("VIOLATION property=%s reproduced 3/3\n", w.Prop)
		return 1
	}
	fmt.Printf("violation %s reproduced %d/3\n", w.Sig, recurs)
	if recurs == 0 {
		return 0
	}
	return 2
}
