package h

import (
	"sort"
	"fmt"
	"strings"
	"time"

	sgbucket "github.com/couchbase/sg-bucket"
	"github.com/couchbaselabs/rosmar"
	"github.com/couchbaselabs/rosmar/vrt"
)

// ---- C04(a): exhaustive clock scripts against the HybridLogicalClock --------------------------------

// RunClockScripts enumerates every sequence of clock answers / seedings up to the given length
// and checks that Now() is strictly increasing.
func RunClockScripts(rep *Report, length int) {
	type step struct {
		name string
		do   func(clk *uint64, h *rosmar.HybridLogicalClock, last uint64)
	}
	steps := []step{
		{"same", func(clk *uint64, h *rosmar.HybridLogicalClock, last uint64) {}},
		{"+1ns", func(clk *uint64, h *rosmar.HybridLogicalClock, last uint64) { *clk++ }},
		{"+65536ns", func(clk *uint64, h *rosmar.HybridLogicalClock, last uint64) { *clk += 65536 }},
		{"-1s", func(clk *uint64, h *rosmar.HybridLogicalClock, last uint64) { *clk -= uint64(time.Second) }},
		{"-1h", func(clk *uint64, h *rosmar.HybridLogicalClock, last uint64) { *clk -= uint64(time.Hour) }},
		{"zero", func(clk *uint64, h *rosmar.HybridLogicalClock, last uint64) { *clk = 0 }},
		{"seed-lower", func(clk *uint64, h *rosmar.HybridLogicalClock, last uint64) { rosmar.VerifHLCUpdate(h, last-1) }},
		{"seed-equal", func(clk *uint64, h *rosmar.HybridLogicalClock, last uint64) { rosmar.VerifHLCUpdate(h, last) }},
		{"seed-higher", func(clk *uint64, h *rosmar.HybridLogicalClock, last uint64) { rosmar.VerifHLCUpdate(h, last+0x20000) }},
	}
	idx := make([]int, length)
	scripts, calls := 0, 0
	patterns := map[string]bool{}
	for {
		clk := uint64(vrt.Epoch) + 12345
		h := rosmar.VerifNewHLC(0, func() uint64 { return clk })
		last := uint64(h.Now())
		seeded := uint64(0)
		var pat strings.Builder
		for pos, i := range idx {
			if steps[i].name == "seed-higher" {
				seeded = last + 0x20000
			}
			steps[i].do(&clk, h, last)
			now := uint64(h.Now())
			calls++
			if now <= last || (seeded != 0 && now <= seeded) {
				var names []string
				for _, j := range idx[:pos+1] {
					names = append(names, steps[j].name)
				}
				rep.AddViolation(Violation{Prop: "C04", Op: "hlc", Pre: "script", Field: "not-increasing", Detail: fmt.Sprintf("clock script %v: Now() returned %d after %d (seeded %d)", names, now, last, seeded)},
					map[string]any{"kind": "hlc-script", "script": names})
			}
			switch {
			case now == last+1:
				pat.WriteByte('c') // counter step
			default:
				pat.WriteByte('p') // physical time took over
			}
			last = now
		}
		patterns[pat.String()] = true
		scripts++
		if scripts <= 2 {
			var names []string
			for _, j := range idx {
				names = append(names, steps[j].name)
			}
			rep.AddSample(map[string]any{"clock_script": names})
		}
		// next script
		p := length - 1
		for p >= 0 {
			idx[p]++
			if idx[p] < len(steps) {
				break
			}
			idx[p] = 0
			p--
		}
		if p < 0 {
			break
		}
	}
	rep.States += len(patterns)
	rep.Transitions += calls
	rep.Executions += scripts
	rep.Extra["clock_scripts"] = map[string]any{"length": length, "alphabet": len(steps), "scripts": scripts, "now_calls": calls, "distinct_counter_vs_physical_patterns": len(patterns)}
}

// ---- C04(b,d): every write path draws its CAS from the clock, whatever the clock does ---------------------

// ClockWorld: buckets b1 (subject, on disk or in memory) and b2; one operation per write entry
// point, each preceded by a clock move {still, +1s, -1h}; "restart" closes the on-disk bucket,
// replaces the process-wide clock by a fresh one (as a new process has) with the wall clock set
// back, and reopens.
type ClockWorld struct {
	cfg    Config
	b1, b2 *rosmar.Bucket
	a1, a2 *rosmar.Collection
	feed   *FeedRec
	issued uint64 // highest CAS handed out so far in this "process" (either bucket)
	issued1 uint64 // highest CAS handed out by the on-disk bucket b1 (survives a restart)
	step   int
}

func init() {
	RegisterWorld("clock", func(cfg Config) GenWorld {
		w := &ClockWorld{cfg: cfg}
		w.open(rosmar.CreateOrOpen)
		b2, err := rosmar.OpenBucket(rosmar.InMemoryURL, "b2", rosmar.CreateOrOpen)
		must(err)
		w.b2, w.a2 = b2, coll(b2, NameA)
		return w
	})
}

func (w *ClockWorld) open(mode rosmar.OpenMode) {
	b, err := rosmar.OpenBucket(BucketURL(w.cfg, "b1"), "b1", mode)
	must(err)
	w.b1, w.a1 = b, coll(b, NameA)
	w.feed, err = StartLiveFeed(w.a1, "f")
	must(err)
}

func (w *ClockWorld) Bucket() *rosmar.Bucket { return w.b1 }

var clockEPs = []string{"B.Set", "SetWithMeta/below", "SetWithMeta/above", "Add", "Set", "WriteCas", "Remove", "Delete", "Update", "Incr", "SetXattrs", "UpdateXattrs", "RemoveXattrs", "DeleteSubDocPaths",
	"WriteWithXattrs", "WriteTombstoneWithXattrs", "WriteResurrectionWithXattrs", "WriteUpdateWithXattrs", "DeleteWithXattrs", "WriteSubDoc", "SubdocInsert", "b2.Set"}

func (w *ClockWorld) Alphabet(tier int) []string {
	var ops []string
	for _, ep := range clockEPs {
		for _, c := range []string{"still", "+1s", "-1h"} {
			if tier == 0 && c == "+1s" && ep != "Set" {
				continue
			}
			if strings.HasPrefix(ep, "SetWithMeta") && c != "still" {
				continue
			}
			ops = append(ops, ep+"|"+c)
		}
	}
	ops = append(ops, "B.Drop|still") // the collection that may hold the newest CAS values goes away
	if w.cfg.Disk {
		ops = append(ops, "restart|-1h", "restart|still")
	}
	return ops
}

func moveClock(c string) {
	switch c {
	case "+1s":
		vrt.SetClock(vrt.NowNanos() + int64(time.Second))
	case "-1h":
		vrt.SetClock(vrt.NowNanos() - int64(time.Hour))
	}
}

func (w *ClockWorld) Apply(op string) (string, []Violation) {
	w.step++
	c := &checker{op: op, pre: "clock"}
	parts := strings.Split(op, "|")
	ep := parts[0]
	if ep == "restart" {
		w.feed.CloseTerm()
		vrt.Quiesce()
		w.b1.Close(ctx)
		_ = w.b2.CloseAndDelete(ctx) // an in-memory bucket does not survive the process
		vrt.Quiesce()
		rosmar.VerifResetHLC()
		moveClock(parts[1])
		w.open(rosmar.ReOpenExisting)
		b2, err := rosmar.OpenBucket(rosmar.InMemoryURL, "b2", rosmar.CreateOrOpen)
		must(err)
		w.b2, w.a2 = b2, coll(b2, NameA)
		// a new process only has to stay above what its on-disk buckets handed out before
		w.issued = w.issued1
		// the first write of the new process (part of this operation, so that it is judged by what a client
		// can see - a CAS - and not by when the implementation chooses to seed its clock)
		cas, err := w.a1.Update("zprobe", 0, func([]byte) ([]byte, *uint32, bool, error) { return []byte(`{"p":1}`), nil, false, nil })
		if err != nil {
			return "err:" + ErrClass(err), nil
		}
		prev := w.issued1
		if cas > w.issued {
			w.issued = cas
		}
		if cas > w.issued1 {
			w.issued1 = cas
		}
		if cas <= prev {
			return "ok", []Violation{{Prop: "C04", Op: op, Pre: "clock", Field: "restart-mark", Detail: fmt.Sprintf("the first write after the restart was stamped %d, but the on-disk bucket had handed out %d before it was closed", cas, prev)}}
		}
		return "ok", nil
	}
	if ep == "B.Drop" {
		if err := w.b1.DropDataStore(NameB); err != nil {
			return "err:" + ErrClass(err), nil
		}
		return "ok", nil
	}
	moveClock(parts[1])
	cl, bucket := w.a1, w.b1
	if ep == "b2.Set" {
		cl, bucket = w.a2, w.b2
	}
	collName := "sc.A/"
	if ep == "B.Set" {
		cl, collName = coll(w.b1, NameB), "sc.B/"
	}
	if strings.HasPrefix(ep, "SetWithMeta") {
		// a caller-chosen CAS is exempt from C04 itself, but it must not drag the persisted high-water
		// mark (which seeds the clock after a restart) below what the clock has handed out
		d, err := rosmar.VerifDumpAll(w.b1)
		must(err)
		var cur uint64
		if r := rowsOf(d)["sc.A/k"]; r != nil {
			cur = r.Cas
		}
		nc := w.issued + 0x40000
		if ep == "SetWithMeta/below" {
			nc = uint64(vrt.Epoch) - 0x1000000 + uint64(w.step)
		}
		err = w.a1.SetWithMeta(ctx, "k", cur, nc, 0, nil, []byte(`{"v":"meta"}`), sgbucket.FeedDataTypeJSON)
		vrt.Quiesce()
		d, _ = rosmar.VerifDumpAll(w.b1)
		if d.BucketLastCas < w.issued1 {
			c.add("C04", "highwater", "%s: bucket.lastCas %d fell below the highest CAS this bucket handed out (%d): a reopened bucket would seed its clock too low", ep, d.BucketLastCas, w.issued1)
		}
		if err != nil {
			return "err:" + ErrClass(err), c.out
		}
		return "ok", c.out
	}
	d, err := rosmar.VerifDumpAll(bucket)
	must(err)
	pre := rowsOf(d)[collName+"k"]
	var cur uint64
	if pre != nil {
		cur = pre.Cas
	}
	before := len(w.feed.Events)
	var casOut uint64
	var refused bool
	xv := map[string][]byte{"_s": []byte(`{"a":1}`)}
	switch ep {
	case "Add":
		var added bool
		added, err = cl.Add("k", 0, []byte(`{"v":1}`))
		refused = !added
	case "Set", "b2.Set", "B.Set":
		err = cl.Set("k", 0, nil, []byte(`{"v":2}`))
	case "WriteCas":
		casOut, err = cl.WriteCas("k", 0, cur, []byte(`{"v":3}`), 0)
	case "Remove":
		casOut, err = cl.Remove("k", cur)
	case "Delete":
		err = cl.Delete("k")
	case "Update":
		casOut, err = cl.Update("k", 0, func([]byte) ([]byte, *uint32, bool, error) { return []byte(`{"v":4}`), nil, false, nil })
	case "Incr":
		_, err = cl.Incr("n", 1, 1, 0)
	case "SetXattrs":
		casOut, err = cl.SetXattrs(ctx, "k", xv)
	case "UpdateXattrs":
		casOut, err = cl.UpdateXattrs(ctx, "k", 0, cur, xv, nil)
	case "RemoveXattrs":
		err = cl.RemoveXattrs(ctx, "k", []string{"_s"}, cur)
	case "DeleteSubDocPaths":
		err = cl.DeleteSubDocPaths(ctx, "k", "_s")
	case "WriteWithXattrs":
		casOut, err = cl.WriteWithXattrs(ctx, "k", 0, cur, []byte(`{"v":5}`), xv, nil, nil)
	case "WriteTombstoneWithXattrs":
		casOut, err = cl.WriteTombstoneWithXattrs(ctx, "k", 0, cur, xv, nil, false, nil)
	case "WriteResurrectionWithXattrs":
		casOut, err = cl.WriteResurrectionWithXattrs(ctx, "k", 0, []byte(`{"v":6}`), xv, nil)
	case "WriteUpdateWithXattrs":
		casOut, err = cl.WriteUpdateWithXattrs(ctx, "k", []string{"_s"}, 0, nil, &sgbucket.MutateInOptions{}, func(doc []byte, x map[string][]byte, cas uint64) (sgbucket.UpdatedDoc, error) {
			return sgbucket.UpdatedDoc{Doc: []byte(`{"v":7}`), Xattrs: xv}, nil
		})
	case "DeleteWithXattrs":
		err = cl.DeleteWithXattrs(ctx, "k", []string{"_s"})
	case "WriteSubDoc":
		casOut, err = cl.WriteSubDoc(ctx, "k", "s", 0, []byte(`1`))
	case "SubdocInsert":
		err = cl.SubdocInsert(ctx, "k", fmt.Sprintf("i%d", w.step), 0, 1)
	}
	vrt.Quiesce()
	result := "ok"
	if err != nil {
		return "err:" + ErrClass(err), nil
	}
	if refused {
		return "refused", nil
	}
	key := "k"
	if ep == "Incr" {
		key = "n"
	}
	d, err = rosmar.VerifDumpAll(bucket)
	must(err)
	post := rowsOf(d)[collName+key]
	if post == nil {
		c.add("C04", "row", "%s succeeded but stored nothing", op)
		return result, c.out
	}
	if post.Cas <= w.issued {
		c.add("C04", "not-above", "%s (clock %s) stamped CAS %d, not above the highest CAS handed out before (%d)", ep, parts[1], post.Cas, w.issued)
	}
	if casOut != 0 && casOut != post.Cas {
		c.add("C04", "casout", "%s returned CAS %d but stored %d", ep, casOut, post.Cas)
	}
	if _, _, rcas, rerr := cl.GetWithXattrs(ctx, key, []string{"_s"}); rerr == nil && rcas != post.Cas {
		c.add("C04", "read-cas", "%s: read CAS %d, stored %d", ep, rcas, post.Cas)
	}
	if bucket == w.b1 && ep != "B.Set" {
		evs := w.feed.Events[before:]
		if len(evs) != 1 || evs[0].Cas != post.Cas {
			c.add("C04", "event-cas", "%s: feed events %v do not carry the stored CAS %d", ep, evs, post.Cas)
		}
	}
	if d.BucketLastCas < post.Cas {
		c.add("C04", "highwater", "%s: bucket.lastCas %d is below the CAS just stored %d (a reopened bucket would seed its clock too low)", ep, d.BucketLastCas, post.Cas)
	}
	if post.Cas > w.issued {
		w.issued = post.Cas
	}
	if bucket == w.b1 && post.Cas > w.issued1 {
		w.issued1 = post.Cas
	}
	return result, c.out
}

func (w *ClockWorld) Canon() string {
	cls := func(b *rosmar.Bucket) string {
		d, err := rosmar.VerifDumpAll(b)
		if err != nil {
			return "?"
		}
		return DocFromRow(rowsOf(d)["sc.A/k"]).Class()
	}
	rel := "behind"
	phys := uint64(vrt.NowNanos()) &^ 0xFFFF
	switch {
	case phys > w.issued:
		rel = "ahead"
	case phys == w.issued:
		rel = "equal"
	}
	// hidden state of the implementation that decides future CAS values: is the process clock's
	// high-water mark at least the highest CAS handed out?
	seeded := rosmar.VerifGlobalHLCHighest() >= w.issued
	// which collections exist, and which of the persisted marks covers what b1 has handed out
	marks := "?"
	if d, err := rosmar.VerifDumpAll(w.b1); err == nil {
		var ms []string
		for _, c := range d.Collections {
			ms = append(ms, fmt.Sprintf("%s:%v", c.Name, c.LastCas >= w.issued1))
		}
		sort.Strings(ms)
		marks = fmt.Sprintf("%v bucket:%v", ms, d.BucketLastCas >= w.issued1)
	}
	return fmt.Sprintf("b1=%s b2=%s clock=%s hlc-covers-issued=%v marks=%s", cls(w.b1), cls(w.b2), rel, seeded, marks)
}

func (w *ClockWorld) Close() {
	w.feed.CloseTerm()
	vrt.Quiesce()
	_ = w.b1.CloseAndDelete(ctx)
	_ = w.b2.CloseAndDelete(ctx)
	vrt.Quiesce()
}
