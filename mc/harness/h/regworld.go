package h

import (
	"database/sql"
	"fmt"
	"os"
	"path/filepath"
	"sort"
	"strings"

	"github.com/couchbaselabs/rosmar"
)

// RegWorld: bucket handle lifecycle (C13a). Names a,b; URLs memory, d1,d2 (for a) and d3 (for b);
// up to four handles; every step is followed by a probe on every handle.

type regHandle struct {
	b     *rosmar.Bucket
	name  string
	url   string // "mem", "d1", ...
	state string // open | closed | dead (its bucket was deleted, or its store shut down)
	store int    // generation of the store it was opened on
}

type regStore struct {
	url   string
	gen   int
	data  string // last probe value written ("" = none)
	count int    // open handles
}

type RegWorld struct {
	cfg     Config
	handles []*regHandle
	open    map[string]*regStore // registered stores by name (in-memory: until CloseAndDelete)
	disk    map[string]string    // url -> persisted data ("\x00" = exists, no data); absent = no directory
	hasDisk map[string]bool
	diskGen map[string]int // generation of the store that owns the directory
	gen     int
	step    int
}

func init() {
	RegisterWorld("registry", func(cfg Config) GenWorld {
		return &RegWorld{cfg: cfg, open: map[string]*regStore{}, disk: map[string]string{}, hasDisk: map[string]bool{}, diskGen: map[string]int{}}
	})
}

func (w *RegWorld) Bucket() *rosmar.Bucket { return nil }

var regCombos = [][2]string{{"a", "mem"}, {"a", "d1"}, {"a", "d2"}, {"b", "mem"}, {"b", "d3"}}
var regModes = map[string]rosmar.OpenMode{"CreateOrOpen": rosmar.CreateOrOpen, "CreateNew": rosmar.CreateNew, "ReOpenExisting": rosmar.ReOpenExisting}

func (w *RegWorld) Alphabet(tier int) []string {
	var ops []string
	for _, c := range regCombos {
		for _, m := range []string{"CreateOrOpen", "CreateNew", "ReOpenExisting"} {
			ops = append(ops, fmt.Sprintf("Open/%s/%s/%s", c[0], c[1], m))
		}
	}
	for i := 0; i < 4; i++ {
		ops = append(ops, fmt.Sprintf("Close/%d", i), fmt.Sprintf("CloseAndDelete/%d", i))
	}
	return ops
}

func (w *RegWorld) urlOf(u string) string {
	if u == "mem" {
		return rosmar.InMemoryURL
	}
	return "rosmar://" + filepath.Join(w.cfg.Root, u)
}

func (w *RegWorld) dirExists(u string) bool {
	_, err := os.Stat(filepath.Join(w.cfg.Root, u))
	return err == nil
}

func (w *RegWorld) Apply(op string) (string, []Violation) {
	w.step++
	parts := strings.Split(op, "/")
	c := &checker{op: op, pre: "registry"}
	var result string
	switch parts[0] {
	case "Open":
		if len(w.handles) >= 4 {
			return "skip", nil
		}
		name, u, mode := parts[1], parts[2], parts[3]
		// specification
		want, why := true, ""
		st := w.open[name]
		switch {
		case st != nil && mode == "CreateNew":
			want, why = false, "CreateNew on a bucket that exists"
		case st != nil && st.url != u:
			want, why = false, "name already open at another URL"
		case st == nil && u == "mem" && mode == "ReOpenExisting":
			want, why = false, "ReOpenExisting of an in-memory bucket that does not exist"
		case st == nil && u != "mem" && mode == "CreateNew" && w.hasDisk[u]:
			want, why = false, "CreateNew on an existing directory"
		case st == nil && u != "mem" && mode == "ReOpenExisting" && !w.hasDisk[u]:
			want, why = false, "ReOpenExisting of a bucket that does not exist"
		}
		b, err := rosmar.OpenBucket(w.urlOf(u), name, regModes[mode])
		if (err == nil) != want {
			c.add("C13", "open.outcome", "OpenBucket(%s,%s,%s) returned err=%v; the specification says it must %s (%s)", name, u, mode, err, ifs(want, "succeed", "fail"), why)
		}
		if err != nil {
			result = "err:" + ErrClass(err)
			break
		}
		if st == nil {
			w.gen++
			st = &regStore{url: u, gen: w.gen}
			if u != "mem" {
				st.data = w.disk[u]
				w.hasDisk[u] = true
				w.diskGen[u] = st.gen
			}
			w.open[name] = st
		}
		st.count++
		w.handles = append(w.handles, &regHandle{b: b, name: name, url: u, state: "open", store: st.gen})
		result = "ok"
	case "Close", "CloseAndDelete":
		var i int
		fmt.Sscanf(parts[1], "%d", &i)
		if i >= len(w.handles) {
			return "skip", nil
		}
		h := w.handles[i]
		if parts[0] == "Close" {
			h.b.Close(ctx)
			if h.state == "open" {
				h.state = "closed"
				st := w.open[h.name]
				st.count--
				if st.count == 0 && h.url != "mem" {
					// last handle of an on-disk bucket: store shut down, data stays on disk
					w.disk[h.url] = st.data
					delete(w.open, h.name)
				}
			}
			result = "ok"
		} else {
			st := w.open[h.name]
			if h.state == "dead" || (st != nil && st.gen != h.store) {
				// CloseAndDelete (again) through a handle whose bucket has already been deleted. What the call
				// itself answers is spec-silent; what it may not do is touch any OTHER bucket: one that has
				// since been created under the same name or at the same URL and is open (the probe below
				// checks every open handle, the registry and the directories). A bucket at the same URL that
				// exists only on disk (all handles closed) cannot be told apart by anyone: skipped.
				otherOpenAtURL := false
				for _, o := range w.open {
					if o.url == h.url {
						otherOpenAtURL = true
					}
				}
				if h.url != "mem" && w.hasDisk[h.url] && !otherOpenAtURL {
					return "skip", nil
				}
				_ = h.b.CloseAndDelete(ctx)
				h.state = "dead"
				w.probe(c)
				return "stale", c.out
			}
			if st == nil && h.url != "mem" && w.hasDisk[h.url] && w.diskGen[h.url] == h.store {
				// the on-disk bucket this handle belonged to was shut down by its last Close and nobody has
				// touched the directory since: CloseAndDelete through the (closed) handle still removes the data
				if err := h.b.CloseAndDelete(ctx); err != nil {
					c.add("C13", "delete.outcome", "CloseAndDelete returned %v", err)
				}
				h.state = "dead"
				delete(w.disk, h.url)
				delete(w.hasDisk, h.url)
				result = "ok"
				break
			}
			if st == nil {
				return "skip", nil // closed handle of an in-memory bucket that is gone, or similar: spec-silent
			}
			err := h.b.CloseAndDelete(ctx)
			if err != nil {
				c.add("C13", "delete.outcome", "CloseAndDelete returned %v", err)
			}
			for _, o := range w.handles {
				if o.name == h.name && o.store == st.gen {
					o.state = "dead"
				}
			}
			delete(w.open, h.name)
			if h.url != "mem" {
				delete(w.disk, h.url)
				delete(w.hasDisk, h.url)
			}
			result = "ok"
		}
	}
	w.probe(c)
	return result, c.out
}

// probe: read + write on every handle, registry contents, reference counts, directories.
func (w *RegWorld) probe(c *checker) {
	for i, h := range w.handles {
		st := w.open[h.name]
		live := h.state == "open" && st != nil && st.gen == h.store
		var coll *rosmar.Collection
		var wErr, rErr error
		var got []byte
		pan := func(what string, f func()) {
			defer func() {
				if r := recover(); r != nil {
					if fmt.Sprintf("%T", r) == "vrt.abortSignal" {
						panic(r)
					}
					c.add("C13", "probe.panic", "%s through handle %d (%s) panicked: %v", what, i, h.state, r)
				}
			}()
			f()
		}
		val := fmt.Sprintf("p%d.%d", w.step, i)
		pan("probe", func() {
			ds, err := h.b.NamedDataStore(NameA)
			if err != nil {
				wErr, rErr = err, err
				return
			}
			coll = ds.(*rosmar.Collection)
			if live && st.data != "" {
				got, _, rErr = coll.GetRaw("p")
				if rErr != nil || string(got) != st.data {
					c.add("C13", "probe.read", "handle %d (open) read (%q, %v); the bucket's data is %q", i, got, rErr, st.data)
				}
			} else {
				_, _, rErr = coll.GetRaw("p")
			}
			wErr = coll.SetRaw("p", 0, nil, []byte(val))
		})
		switch {
		case live:
			if wErr != nil {
				c.add("C13", "probe.write", "write through open handle %d failed: %v", i, wErr)
			} else {
				st.data = val
			}
		case h.state == "closed":
			if ErrClass(wErr) != "closed" {
				c.add("C13", "probe.closed", "write through closed handle %d returned %v, want the bucket-closed error", i, wErr)
				if wErr == nil && st != nil && st.gen == h.store {
					st.data = val
				}
			}
		default: // dead: some error, no panic
			if wErr == nil {
				c.add("C13", "probe.dead", "write through handle %d of a deleted bucket succeeded", i)
			}
		}
	}
	// registry
	names := rosmar.GetBucketNames()
	sort.Strings(names)
	var want []string
	for n := range w.open {
		want = append(want, n)
	}
	sort.Strings(want)
	if fmt.Sprint(names) != fmt.Sprint(want) {
		c.add("C13", "names", "GetBucketNames()=%v, want %v", names, want)
	}
	counts, _ := rosmar.VerifRegistry()
	for n, st := range w.open {
		if int(counts[n]) != st.count {
			c.add("C13", "refcount", "reference count of %s is %d, %d handles are open", n, counts[n], st.count)
		}
	}
	for n, cnt := range counts {
		if w.open[n] == nil && cnt != 0 {
			c.add("C13", "refcount", "reference count of unregistered %s is %d", n, cnt)
		}
	}
	for _, u := range []string{"d1", "d2", "d3"} {
		if w.dirExists(u) != w.hasDisk[u] {
			c.add("C13", "directory", "directory %s exists=%v, want %v", u, w.dirExists(u), w.hasDisk[u])
		}
		if _, err := os.Stat(filepath.Join(w.cfg.Root, u, "rosmar.sqlite3")); w.hasDisk[u] && err != nil {
			c.add("C13", "directory", "the database file of the bucket at %s is gone: %v", u, err)
		}
	}
}

func (w *RegWorld) Canon() string {
	var b strings.Builder
	var names []string
	for n := range w.open {
		names = append(names, n)
	}
	sort.Strings(names)
	for _, n := range names {
		st := w.open[n]
		fmt.Fprintf(&b, "%s@%s#%d;", n, st.url, st.count)
	}
	b.WriteString("|")
	for _, h := range w.handles {
		st := w.open[h.name]
		cur := st != nil && st.gen == h.store
		fmt.Fprintf(&b, "%s@%s:%s:%v;", h.name, h.url, h.state, cur)
	}
	b.WriteString("|")
	for _, u := range []string{"d1", "d2", "d3"} {
		fmt.Fprintf(&b, "%v", w.hasDisk[u])
	}
	// implementation side: registry and per-handle flags
	counts, urls := rosmar.VerifRegistry()
	fmt.Fprintf(&b, "|impl:%v%v", counts, len(urls))
	for _, h := range w.handles {
		fmt.Fprintf(&b, "%v%v", rosmar.VerifIsClosed(h.b), rosmar.VerifDBOpen(h.b))
	}
	return b.String()
}

func (w *RegWorld) Close() {
	for _, h := range w.handles {
		func() {
			defer func() { _ = recover() }()
			_ = h.b.CloseAndDelete(ctx)
		}()
	}
}

// RunOpenFailureScript: one scripted execution outside the searches (it needs SQLite's 10 s busy timeout to
// pass in real time): an existing on-disk bucket whose database is write-locked by another connection
// cannot be opened - and must still be there, with its data, once the lock is gone (C13: "data is intact
// when reopened"; a failed open is not a delete).
func RunOpenFailureScript(rep *Report) {
	root := NewScratchDir()
	defer removeAll(root)
	dir := filepath.Join(root, "locked")
	url := "rosmar://" + dir
	viol := func(field, detail string) {
		rep.AddViolation(Violation{Prop: "C13", Op: "script:open-while-locked", Pre: "script", Field: field, Detail: detail}, map[string]any{"kind": "script", "name": "open-while-locked"})
	}
	rep.Transitions += 4
	rep.Executions++
	b, err := rosmar.OpenBucket(url, "locked", rosmar.CreateNew)
	if err != nil {
		rep.Internal = append(rep.Internal, "open-failure script: "+err.Error())
		return
	}
	if err := coll(b, NameA).SetRaw("m", 0, nil, []byte("marker")); err != nil {
		rep.Internal = append(rep.Internal, "open-failure script: "+err.Error())
		return
	}
	b.Close(ctx)
	db, err := sql.Open("sqlite3_for_rosmar", "file:"+filepath.Join(dir, "rosmar.sqlite3")+"?_txlock=immediate&_journal_mode=WAL")
	if err != nil {
		rep.Internal = append(rep.Internal, "open-failure script: "+err.Error())
		return
	}
	tx, err := db.Begin()
	if err == nil {
		_, err = tx.Exec(`UPDATE bucket SET name=name`)
	}
	if err != nil {
		rep.Internal = append(rep.Internal, "open-failure script: cannot take the write lock: "+err.Error())
		return
	}
	if b2, err := rosmar.OpenBucket(url, "locked", rosmar.ReOpenExisting); err == nil {
		// (it got in after all: nothing to judge, release everything)
		b2.Close(ctx)
	}
	_ = tx.Rollback()
	_ = db.Close()
	b3, err := rosmar.OpenBucket(url, "locked", rosmar.ReOpenExisting)
	if err != nil {
		viol("destroyed", "an OpenBucket that failed because the database was locked destroyed the bucket: afterwards ReOpenExisting says "+err.Error())
		return
	}
	if v, _, err := coll(b3, NameA).GetRaw("m"); err != nil || string(v) != "marker" {
		viol("data", fmt.Sprintf("after a failed OpenBucket the bucket's data reads (%q, %v)", v, err))
	}
	_ = b3.CloseAndDelete(ctx)
}
