package h

import (
	"encoding/binary"
	"errors"
	"fmt"
	"hash/crc32"
	"strconv"
	"strings"
	"time"

	sgbucket "github.com/couchbase/sg-bucket"
	"github.com/couchbaselabs/rosmar"
	"github.com/couchbaselabs/rosmar/vrt"
)

// Op is one instance of the operation alphabet: a concrete call on the subject key plus the
// specification's expectation for it.
type Op struct {
	Name string // unique instance name, e.g. "WriteCas/plain/C"
	EP   string // entry point (for signatures)
	Key  string // "k" (default) or "j"
	Tier int    // 0 = quick and thorough, 1 = thorough only
	Run  func(c *rosmar.Collection, env Env) Result
	Spec func(pre Doc, env Env) Expect
	Bucket func(b *rosmar.Bucket, env Env) Result // bucket-level op (purge)
}

func resErr(err error) Result {
	r := Result{Err: ErrClass(err)}
	if err != nil {
		r.ErrMsg = err.Error()
	}
	return r
}

func casAsString(v uint64) string {
	b := make([]byte, 8)
	binary.LittleEndian.PutUint64(b, v)
	return fmt.Sprintf("0x%x", b)
}

func crc32cString(data []byte) string {
	return fmt.Sprintf("0x%08x", crc32.Checksum(data, crc32.MakeTable(crc32.Castagnoli)))
}

const relExp = 10

var bigBody = []byte(`{"big":"` + strings.Repeat("x", 400) + `"}`)

func xs(kv ...string) map[string][]byte {
	m := map[string][]byte{}
	for i := 0; i+1 < len(kv); i += 2 {
		m[kv[i]] = []byte(kv[i+1])
	}
	return m
}

func xss(m map[string][]byte) map[string]string {
	out := map[string]string{}
	for k, v := range m {
		out[k] = string(v)
	}
	return out
}

func named(m map[string][]byte) map[string]bool {
	out := map[string]bool{}
	for k := range m {
		out[k] = true
	}
	return out
}

// carriedX: xattrs a body write carries over - the live document's, or none when it gives a
// tombstone / absent key a body (C05, C07).
func carriedX(pre Doc) map[string]string {
	if pre.Live {
		return copyX(pre.X)
	}
	return map[string]string{}
}

var errCallback = errors.New("callback says no")

// KVAlphabet returns the operation alphabet of the shared exploration, simplest first.
func KVAlphabet() []Op {
	var ops []Op
	add := func(o Op) {
		if o.Key == "" {
			o.Key = "k"
		}
		ops = append(ops, o)
	}

	// ---- insert-style ----------------------------------------------------------------------
	insertSpec := func(body []byte, e uint32) func(Doc, Env) Expect {
		return func(pre Doc, env Env) Expect {
			if pre.Live {
				return Expect{Succeeds: No, OutcomeProp: "C06"}
			}
			return Expect{Succeeds: Yes, OutcomeProp: "C06", Live: Yes, Body: body, XSet: true, X: map[string]string{}, ExpSet: true, Exp: AbsExp(e, env.Now)}
		}
	}
	addOp := func(name string, e uint32, raw bool, tier int) {
		body := J(`{"v":"add"}`)
		if raw {
			body = J("rawadd")
		}
		add(Op{Name: name, EP: ifs(raw, "AddRaw", "Add"), Tier: tier,
			Run: func(c *rosmar.Collection, env Env) Result {
				var added bool
				var err error
				if raw {
					added, err = c.AddRaw("k", e, body)
				} else {
					added, err = c.Add("k", e, body)
				}
				r := resErr(err)
				r.Refused = err == nil && !added
				return r
			},
			Spec: insertSpec(body, e)})
	}
	addOp("Add", 0, false, 0)
	addOp("AddRaw", 0, true, 0)
	addOp("Add/exp", relExp, false, 0)

	// ---- blind writes ----------------------------------------------------------------------
	setOp := func(name string, e func(Env) uint32, preserve, raw bool, body []byte, tier int) {
		add(Op{Name: name, EP: ifs(raw, "SetRaw", "Set"), Tier: tier,
			Run: func(c *rosmar.Collection, env Env) Result {
				var opts *sgbucket.UpsertOptions
				if preserve {
					opts = &sgbucket.UpsertOptions{PreserveExpiry: true}
				}
				if raw {
					return resErr(c.SetRaw("k", e(env), opts, body))
				}
				return resErr(c.Set("k", e(env), opts, body))
			},
			Spec: func(pre Doc, env Env) Expect {
				if len(body) > 300 {
					return Expect{Succeeds: No, OutcomeProp: "C07", FailClasses: []string{"toobig"}}
				}
				x := Expect{Live: Yes, Body: body, XSet: true, X: carriedX(pre), ExpSet: true, Exp: AbsExp(e(env), env.Now)}
				if preserve {
					if pre.Live {
						x.Exp = pre.Exp
					} else if pre.Row {
						x.ExpSet = false // PreserveExpiry on a tombstone: spec-silent (R1)
					}
				}
				return x
			}})
	}
	e0 := func(Env) uint32 { return 0 }
	eRel := func(Env) uint32 { return relExp }
	eAbs := func(env Env) uint32 { return env.Now + 20 }
	setOp("Set", e0, false, false, J(`{"v":"set"}`), 0)
	setOp("SetRaw", e0, false, true, J("rawset"), 0)
	setOp("Set/exp", eRel, false, false, J(`{"v":"sete"}`), 0)
	setOp("Set/absexp", eAbs, false, false, J(`{"v":"seta"}`), 1)
	// exactly 30 days is still an offset ("an offset of at most 30 days")
	setOp("Set/exp30d", func(Env) uint32 { return 30 * 24 * 3600 }, false, false, J(`{"v":"set30"}`), 0)
	setOp("Set/preserve", e0, true, false, J(`{"v":"setp"}`), 0)
	setOp("Set/oversize", e0, false, false, bigBody, 0)
	setOp("Set/nullprop", e0, false, false, J(`{"a":null,"v":"np"}`), 0) // a property that is present with value null
	setOp("SetRaw/empty", e0, false, true, []byte{}, 0) // a present but zero-length body is still a body
	// nil body: the call stores a document without a body; whether that is allowed is spec-silent, but
	// whatever it leaves must be coherent (C05): all observers must agree it has no body.
	add(Op{Name: "SetRaw/nil", EP: "SetRaw",
		Run:  func(c *rosmar.Collection, env Env) Result { return resErr(c.SetRaw("k", 0, nil, nil)) },
		Spec: func(pre Doc, env Env) Expect { return Expect{Live: No} }})
	add(Op{Name: "AddRaw/nil", EP: "AddRaw",
		Run: func(c *rosmar.Collection, env Env) Result {
			added, err := c.AddRaw("k", 0, nil)
			r := resErr(err)
			r.Refused = err == nil && !added
			return r
		},
		Spec: func(pre Doc, env Env) Expect {
			if pre.Live {
				return Expect{Succeeds: No, OutcomeProp: "C06"}
			}
			return Expect{Live: No}
		}})

	// ---- WriteCas --------------------------------------------------------------------------
	writeCas := func(variant, tok string, e uint32, opt sgbucket.WriteOptions, val any, body []byte, tier int) {
		add(Op{Name: "WriteCas/" + variant + "/" + tok, EP: "WriteCas/" + variant, Tier: tier,
			Run: func(c *rosmar.Collection, env Env) Result {
				cas, err := c.WriteCas("k", e, env.Cas(tok), val, opt)
				r := resErr(err)
				r.Cas = cas
				return r
			},
			Spec: func(pre Doc, env Env) Expect {
				cas := env.Cas(tok)
				switch {
				case opt&sgbucket.AddOnly != 0:
					x := insertSpec(body, e)(pre, env)
					x.FailClasses = []string{"keyexists", "casmismatch"}
					if !pre.Row && cas != 0 {
						x.Succeeds = Silent // R2: C02 says missing, C06 says insert
					}
					return x
				case cas == 0 && opt&sgbucket.Append == 0:
					x := insertSpec(body, e)(pre, env)
					x.FailClasses = []string{"casmismatch", "keyexists"}
					if val == nil {
						// deleting with cas 0: only determined when there is a live document (refused)
						if pre.Live {
							return Expect{Succeeds: No, OutcomeProp: "C02", FailClasses: x.FailClasses}
						}
						return Expect{Live: No, ExpSet: true, Exp: 0}
					}
					return x
				case opt&sgbucket.Append != 0:
					x := Expect{OutcomeProp: "C02", FailClasses: []string{"casmismatch", "missing"}}
					if !pre.Row || cas != pre.Cas {
						x.Succeeds = No
						return x
					}
					if !pre.Live {
						return Expect{} // appending to a tombstone: spec-silent
					}
					x.Succeeds = Yes
					x.Live, x.Body = Yes, append(append([]byte(nil), pre.Body...), body...)
					x.XSet, x.X = true, copyX(pre.X)
					x.ExpSet, x.Exp = true, AbsExp(e, env.Now)
					return x
				default:
					x := Expect{OutcomeProp: "C02", FailClasses: []string{"casmismatch", "missing"}}
					if !pre.Row || cas != pre.Cas {
						x.Succeeds = No
						return x
					}
					x.Succeeds = Yes
					if val == nil {
						x.Live = No
						x.XSysKeep = pre.Live // deleting an existing tombstone again: xattrs spec-silent
						x.ExpSet, x.Exp = true, 0
						return x
					}
					x.Live, x.Body = Yes, body
					x.XSet, x.X = true, carriedX(pre)
					x.ExpSet, x.Exp = true, AbsExp(e, env.Now)
					return x
				}
			}})
	}
	for _, tok := range []string{"Z", "C", "S"} {
		writeCas("plain", tok, 0, 0, J(`{"v":"wc"}`), J(`{"v":"wc"}`), 0)
		writeCas("addonly", tok, 0, sgbucket.AddOnly, J(`{"v":"wca"}`), J(`{"v":"wca"}`), 0)
		writeCas("nil", tok, 0, 0, nil, nil, 0)
	}
	writeCas("raw", "Z", 0, sgbucket.Raw, J("rawwc"), J("rawwc"), 1)
	writeCas("raw", "C", 0, sgbucket.Raw, J("rawwc"), J("rawwc"), 0)
	writeCas("append", "C", 0, sgbucket.Append, J("+app"), J("+app"), 0)
	writeCas("append", "S", 0, sgbucket.Append, J("+app"), J("+app"), 0)
	writeCas("append-nil", "C", 0, sgbucket.Append|sgbucket.Raw, nil, nil, 0) // appending nothing: the body stays
	writeCas("exp", "C", relExp, 0, J(`{"v":"wce"}`), J(`{"v":"wce"}`), 0)

	// ---- Remove / Delete -------------------------------------------------------------------
	delSpec := func(needCas bool, tok string) func(Doc, Env) Expect {
		return func(pre Doc, env Env) Expect {
			x := Expect{FailClasses: []string{"casmismatch", "missing"}}
			if needCas {
				x.OutcomeProp = "C02"
				if !pre.Row || env.Cas(tok) != pre.Cas {
					x.Succeeds = No
					return x
				}
				if pre.Live {
					x.Succeeds = Yes
				}
			}
			// deleting an existing tombstone: outcome spec-silent; if it succeeds it stays a tombstone
			x.Live = No
			x.XSet, x.X = true, sysOnly(pre.X)
			x.ExpSet, x.Exp = true, 0
			return x
		}
	}
	for _, tok := range []string{"C", "S", "Z"} {
		tok := tok
		add(Op{Name: "Remove/" + tok, EP: "Remove",
			Run: func(c *rosmar.Collection, env Env) Result {
				cas, err := c.Remove("k", env.Cas(tok))
				r := resErr(err)
				r.Cas = cas
				return r
			}, Spec: delSpec(true, tok)})
	}
	add(Op{Name: "Delete", EP: "Delete",
		Run:  func(c *rosmar.Collection, env Env) Result { return resErr(c.Delete("k")) },
		Spec: delSpec(false, "")})

	// ---- Update ----------------------------------------------------------------------------
	update := func(variant string, tier int, cb func(calls *int) sgbucket.UpdateFunc, e uint32, spec func(Doc, Env) Expect) {
		add(Op{Name: "Update/" + variant, EP: "Update/" + variant, Tier: tier,
			Run: func(c *rosmar.Collection, env Env) Result {
				var r Result
				calls := 0
				inner := cb(&calls)
				cas, err := c.Update("k", e, func(cur []byte) ([]byte, *uint32, bool, error) {
					r.Shown = append(r.Shown, append([]byte(nil), cur...))
					return inner(cur)
				})
				rr := resErr(err)
				rr.Shown = r.Shown
				rr.Cas = cas
				return rr
			}, Spec: spec})
	}
	updBody := J(`{"v":"upd"}`)
	replaceSpec := func(e uint32) func(Doc, Env) Expect {
		return func(pre Doc, env Env) Expect {
			return Expect{Live: Yes, Body: updBody, XSet: true, X: carriedX(pre), ExpSet: true, Exp: AbsExp(e, env.Now)}
		}
	}
	update("replace", 0, func(*int) sgbucket.UpdateFunc {
		return func([]byte) ([]byte, *uint32, bool, error) { return updBody, nil, false, nil }
	}, 0, replaceSpec(0))
	update("delete", 0, func(*int) sgbucket.UpdateFunc {
		return func([]byte) ([]byte, *uint32, bool, error) { return nil, nil, true, nil }
	}, 0, func(pre Doc, env Env) Expect {
		x := Expect{Live: No, XSysKeep: pre.Live, ExpSet: true, Exp: 0}
		return x
	})
	update("cancel", 0, func(*int) sgbucket.UpdateFunc {
		return func([]byte) ([]byte, *uint32, bool, error) { return nil, nil, false, nil }
	}, 0, func(Doc, Env) Expect { return Expect{Succeeds: Yes, OutcomeProp: "C01", NoChange: true} })
	update("error", 1, func(*int) sgbucket.UpdateFunc {
		return func([]byte) ([]byte, *uint32, bool, error) { return updBody, nil, false, errCallback }
	}, 0, func(Doc, Env) Expect { return Expect{Succeeds: No, OutcomeProp: "C01"} })
	update("retry", 0, func(calls *int) sgbucket.UpdateFunc {
		return func([]byte) ([]byte, *uint32, bool, error) {
			*calls++
			if *calls == 1 {
				return nil, nil, false, sgbucket.ErrCasFailureShouldRetry
			}
			return updBody, nil, false, nil
		}
	}, 0, replaceSpec(0))
	update("exp", 0, func(*int) sgbucket.UpdateFunc {
		return func([]byte) ([]byte, *uint32, bool, error) { e := uint32(relExp); return updBody, &e, false, nil }
	}, 0, replaceSpec(relExp))

	update("exponly", 0, func(*int) sgbucket.UpdateFunc {
		return func([]byte) ([]byte, *uint32, bool, error) { e := uint32(relExp); return nil, &e, false, nil }
	}, 0, func(pre Doc, env Env) Expect {
		if !pre.Live {
			// expiry-only update of a key without a body: whether it stores anything is spec-silent, but
			// what it leaves has no body and - being deleted - no expiry (C14)
			return Expect{Live: No, ExpSet: true, Exp: 0}
		}
		return Expect{Live: Yes, Body: pre.Body, XSet: true, X: copyX(pre.X), ExpSet: true, Exp: AbsExp(relExp, env.Now)}
	})

	// ---- Incr ------------------------------------------------------------------------------
	incr := func(name string, e uint32, tier int) {
		add(Op{Name: name, EP: "Incr", Tier: tier,
			Run: func(c *rosmar.Collection, env Env) Result {
				n, err := c.Incr("k", 1, 5, e)
				r := resErr(err)
				r.Num = n
				return r
			},
			Spec: func(pre Doc, env Env) Expect {
				var want uint64 = 5
				if pre.Live {
					n, err := strconv.ParseUint(string(pre.Body), 10, 64)
					if err != nil {
						return Expect{Succeeds: No, OutcomeProp: "C01"} // not a counter: must fail and change nothing
					}
					want = n + 1
				}
				return Expect{Live: Yes, Body: J(strconv.FormatUint(want, 10)), XSet: true, X: carriedX(pre), ExpSet: true, Exp: AbsExp(e, env.Now)}
			}})
	}
	incr("Incr", 0, 0)
	incr("Incr/exp", relExp, 1)

	// ---- Touch -----------------------------------------------------------------------------
	touch := func(name string, e uint32, gat bool, tier int) {
		add(Op{Name: name, EP: ifs(gat, "GetAndTouchRaw", "Touch"), Tier: tier,
			Run: func(c *rosmar.Collection, env Env) Result {
				if gat {
					v, cas, err := c.GetAndTouchRaw("k", e)
					r := resErr(err)
					r.Val, r.Cas = v, cas
					return r
				}
				cas, err := c.Touch("k", e)
				r := resErr(err)
				r.Cas = cas
				return r
			},
			Spec: func(pre Doc, env Env) Expect {
				if !pre.Live {
					return Expect{Succeeds: No, OutcomeProp: "C01", FailClasses: []string{"missing"}}
				}
				return Expect{Succeeds: Yes, OutcomeProp: "C01", Live: Yes, Body: pre.Body, XSet: true, X: copyX(pre.X), ExpSet: true, Exp: AbsExp(e, env.Now), SameCas: true, EventOptional: true}
			}})
	}
	touch("Touch/10", relExp, false, 0)
	touch("Touch/0", 0, false, 0)
	touch("GetAndTouchRaw/30", 30, true, 0)

	// ---- xattr-only writes -----------------------------------------------------------------
	setX := func(name string, vals map[string][]byte, tier int, bad bool) {
		add(Op{Name: name, EP: "SetXattrs", Tier: tier,
			Run: func(c *rosmar.Collection, env Env) Result {
				cas, err := c.SetXattrs(ctx, "k", vals)
				r := resErr(err)
				r.Cas = cas
				return r
			},
			Spec: func(pre Doc, env Env) Expect {
				if bad {
					return Expect{Succeeds: No, OutcomeProp: "C07"}
				}
				x := Expect{XSet: true, X: withX(pre.X, xss(vals), nil), XNamed: named(vals), ExpSet: true, Exp: pre.Exp}
				if pre.Live {
					x.Live, x.Body = Yes, pre.Body
				} else {
					x.Live = No
				}
				return x
			}})
	}
	setX("SetXattrs/_s", xs("_s", `{"by":"sx"}`), 0, false)
	setX("SetXattrs/_s+u", xs("_s", `{"by":"sx2"}`, "u", `{"by":"sxu"}`), 0, false)
	setX("SetXattrs/_t", xs("_t", `[1,2]`), 1, false)
	setX("SetXattrs/badjson", xs("_s", `{bad`), 0, true)

	updX := func(name, tok string, e uint32, preserve bool, vals map[string][]byte, tier int) {
		add(Op{Name: name, EP: "UpdateXattrs", Tier: tier,
			Run: func(c *rosmar.Collection, env Env) Result {
				var opts *sgbucket.MutateInOptions
				if preserve {
					opts = &sgbucket.MutateInOptions{PreserveExpiry: true}
				}
				cas, err := c.UpdateXattrs(ctx, "k", e, env.Cas(tok), vals, opts)
				r := resErr(err)
				r.Cas = cas
				return r
			},
			Spec: func(pre Doc, env Env) Expect {
				x := Expect{OutcomeProp: "C02", FailClasses: []string{"casmismatch", "missing"}}
				if env.Cas(tok) != pre.Cas {
					x.Succeeds = No
					return x
				}
				x.Succeeds = Yes
				x.XSet, x.X, x.XNamed = true, withX(pre.X, xss(vals), nil), named(vals)
				x.ExpSet, x.Exp = true, AbsExp(e, env.Now)
				if preserve {
					x.Exp = pre.Exp
				}
				if pre.Live {
					x.Live, x.Body = Yes, pre.Body
				} else {
					x.Live = No
					x.ExpSet = false // an expiry on a key without a body means nothing: spec-silent
				}
				return x
			}})
	}
	updX("UpdateXattrs/C", "C", 0, true, xs("_s", `{"by":"ux"}`), 0)
	updX("UpdateXattrs/S", "S", 0, true, xs("_s", `{"by":"ux"}`), 0)
	updX("UpdateXattrs/Z", "Z", 0, true, xs("_s", `{"by":"ux"}`), 1)
	updX("UpdateXattrs/exp/C", "C", relExp, false, xs("u", `{"by":"uxe"}`), 0)
	updX("UpdateXattrs/exp0/C", "C", 0, false, xs("_t", `{"by":"ux0"}`), 1)

	rmX := func(name, tok string, names []string, tier int) {
		add(Op{Name: name, EP: "RemoveXattrs", Tier: tier,
			Run: func(c *rosmar.Collection, env Env) Result {
				return resErr(c.RemoveXattrs(ctx, "k", names, env.Cas(tok)))
			},
			Spec: func(pre Doc, env Env) Expect {
				x := Expect{OutcomeProp: "C02"}
				if env.Cas(tok) != pre.Cas || !pre.Row {
					x.Succeeds = No
					return x
				}
				if !hasAll(pre.X, names) {
					x.Succeeds, x.OutcomeProp = No, "C07"
					return x
				}
				x.Succeeds = Yes
				x.XSet, x.X = true, withX(pre.X, nil, names)
				x.ExpSet, x.Exp = true, pre.Exp
				if pre.Live {
					x.Live, x.Body = Yes, pre.Body
				} else {
					x.Live = No
				}
				return x
			}})
	}
	rmX("RemoveXattrs/_s/C", "C", []string{"_s"}, 0)
	rmX("RemoveXattrs/_s/S", "S", []string{"_s"}, 0)
	rmX("RemoveXattrs/_s/Z", "Z", []string{"_s"}, 0) // expected CAS 0 = "no such document"
	rmX("RemoveXattrs/_s+u/C", "C", []string{"_s", "u"}, 0)
	rmX("RemoveXattrs/_zz/C", "C", []string{"_zz"}, 1)

	dsp := func(name string, names []string, tier int) {
		add(Op{Name: name, EP: "DeleteSubDocPaths", Tier: tier,
			Run: func(c *rosmar.Collection, env Env) Result { return resErr(c.DeleteSubDocPaths(ctx, "k", names...)) },
			Spec: func(pre Doc, env Env) Expect {
				if !pre.Row {
					return Expect{Succeeds: No, OutcomeProp: "C07", FailClasses: []string{"missing"}}
				}
				x := Expect{XSet: true, X: withX(pre.X, nil, names), ExpSet: true, Exp: pre.Exp}
				if pre.Live {
					x.Live, x.Body = Yes, pre.Body
				} else {
					x.Live = No
				}
				return x
			}})
	}
	dsp("DeleteSubDocPaths/_s", []string{"_s"}, 0)
	dsp("DeleteSubDocPaths/_s+u", []string{"_s", "u"}, 1)
	dsp("DeleteSubDocPaths/_zz", []string{"_zz"}, 1)

	// ---- body + xattrs ---------------------------------------------------------------------
	type wwx struct {
		name     string
		tok      string
		e        uint32
		body     []byte
		vals     map[string][]byte
		del      []string
		preserve bool
		macros   bool
		macroOn  string // the xattr the macro paths address (default _s)
		tier     int
	}
	wwxOp := func(a wwx) {
		add(Op{Name: "WriteWithXattrs/" + a.name + "/" + a.tok, EP: "WriteWithXattrs/" + a.name, Tier: a.tier,
			Run: func(c *rosmar.Collection, env Env) Result {
				var opts *sgbucket.MutateInOptions
				if a.preserve || a.macros {
					opts = &sgbucket.MutateInOptions{PreserveExpiry: a.preserve}
					if a.macros {
						on := "_s"
						if a.macroOn != "" {
							on = a.macroOn
						}
						opts.MacroExpansion = []sgbucket.MacroExpansionSpec{
							sgbucket.NewMacroExpansionSpec(on+".cas", sgbucket.MacroCas),
							sgbucket.NewMacroExpansionSpec(on+".crc", sgbucket.MacroCrc32c),
						}
					}
				}
				cas, err := c.WriteWithXattrs(ctx, "k", a.e, env.Cas(a.tok), a.body, a.vals, a.del, opts)
				r := resErr(err)
				r.Cas = cas
				return r
			},
			Spec: func(pre Doc, env Env) Expect {
				cas := env.Cas(a.tok)
				bad := Expect{Succeeds: No, OutcomeProp: "C07"}
				if cas == 0 && a.del != nil {
					return bad
				}
				if len(a.body) == 0 && len(a.vals) == 0 {
					return bad
				}
				if len(a.body)+totalLen(a.vals) > 300 {
					// must be refused; which error wins when the pre-state would refuse it too is spec-silent
					return bad
				}
				x := Expect{OutcomeProp: "C02", FailClasses: []string{"casmismatch", "keyexists", "missing"}}
				switch {
				case !pre.Row:
					if cas != 0 {
						x.Succeeds = No
						return x
					}
					x.Succeeds = Yes
				case pre.Live:
					if cas != pre.Cas {
						x.Succeeds = No
						if cas == 0 {
							x.OutcomeProp = "C06"
						}
						return x
					}
					if !hasAll(pre.X, a.del) {
						return bad
					}
					x.Succeeds = Yes
				default: // tombstone
					if a.body != nil {
						x.Succeeds, x.OutcomeProp = No, "C06"
						return x
					}
					if cas != pre.Cas {
						x.Succeeds = No
						return x
					}
					if !hasAll(pre.X, a.del) {
						return bad
					}
					x.Succeeds = Yes
				}
				x.XNamed = named(a.vals)
				x.XSet, x.X = true, withX(pre.X, xss(a.vals), a.del)
				if a.body != nil {
					x.Live, x.Body = Yes, a.body
				} else if pre.Live {
					x.Live, x.Body = Yes, pre.Body
				} else {
					x.Live = No
				}
				x.ExpSet, x.Exp = true, AbsExp(a.e, env.Now)
				if a.preserve {
					x.Exp = pre.Exp
				}
				if a.macros {
					on := "_s"
					if a.macroOn != "" {
						on = a.macroOn
					}
					x.Macros = map[string]string{on: "cas+crc"}
				}
				return x
			}})
	}
	for _, tok := range []string{"Z", "C", "S"} {
		wwxOp(wwx{name: "body+_s", tok: tok, body: J(`{"v":"wwx"}`), vals: xs("_s", `{"by":"wwx"}`)})
	}
	wwxOp(wwx{name: "xonly_t", tok: "C", vals: xs("_t", `{"by":"wwxt"}`)})
	wwxOp(wwx{name: "xonly_t", tok: "Z", vals: xs("_t", `{"by":"wwxt"}`), tier: 1})
	wwxOp(wwx{name: "bodyonly", tok: "C", body: J(`{"v":"wwxb"}`)})
	wwxOp(wwx{name: "body+u-del_s", tok: "C", body: J(`{"v":"wwxd"}`), vals: xs("u", `{"by":"wwxu"}`), del: []string{"_s"}})
	wwxOp(wwx{name: "macros", tok: "C", body: J(`{"v":"wwxm"}`), vals: xs("_s", `{"by":"m","cas":"x","crc":"y"}`), macros: true})
	wwxOp(wwx{name: "macros", tok: "Z", body: J(`{"v":"wwxm"}`), vals: xs("_s", `{"by":"m","cas":"x","crc":"y"}`), macros: true, tier: 1})
	// macros addressed to _s2 only, in a call that also sets _s (a name that is a prefix of the other): _s is stored as given
	wwxOp(wwx{name: "macros-on-longer-name", tok: "C", body: J(`{"v":"wwxl"}`), macros: true, macroOn: "_s2",
		vals: map[string][]byte{"_s": J(`{"by":"m0","cas":"literal"}`), "_s2": J(`{"by":"m2","cas":"x","crc":"y"}`)}})
	wwxOp(wwx{name: "macros-xonly", tok: "C", vals: xs("_s", `{"by":"mx","cas":"x","crc":"y"}`), macros: true})
	wwxOp(wwx{name: "exp", tok: "C", e: relExp, body: J(`{"v":"wwxe"}`), vals: xs("_s", `{"by":"wwxe"}`)})
	wwxOp(wwx{name: "preserve", tok: "C", body: J(`{"v":"wwxp"}`), vals: xs("_t", `{"by":"wwxp"}`), preserve: true})
	wwxOp(wwx{name: "oversize", tok: "C", body: J(`{"v":"wwxo"}`), vals: xs("_s", `{"big":"`+strings.Repeat("y", 400)+`"}`), tier: 1})
	wwxOp(wwx{name: "del-absent", tok: "C", body: J(`{"v":"wwxq"}`), vals: xs("u", `1`), del: []string{"_zz"}, tier: 1})

	type wtx struct {
		name       string
		tok        string
		vals       map[string][]byte
		del        []string
		deleteBody bool
		tier       int
	}
	wtxOp := func(a wtx) {
		add(Op{Name: "WriteTombstoneWithXattrs/" + a.name + "/" + a.tok, EP: "WriteTombstoneWithXattrs/" + a.name, Tier: a.tier,
			Run: func(c *rosmar.Collection, env Env) Result {
				cas, err := c.WriteTombstoneWithXattrs(ctx, "k", 0, env.Cas(a.tok), a.vals, a.del, a.deleteBody, nil)
				r := resErr(err)
				r.Cas = cas
				return r
			},
			Spec: func(pre Doc, env Env) Expect {
				cas := env.Cas(a.tok)
				bad := Expect{Succeeds: No, OutcomeProp: "C07"}
				if len(a.vals) == 0 || (cas == 0 && a.del != nil) {
					return bad
				}
				x := Expect{OutcomeProp: "C02", FailClasses: []string{"casmismatch", "missing", "keyexists"}}
				if cas != pre.Cas {
					x.Succeeds = No
					return x
				}
				if a.deleteBody && !pre.Live {
					return bad // asked to delete a body that is not there
				}
				after := withX(sysOnly(pre.X), xss(a.vals), nil)
				if !hasAll(sysOnly(pre.X), a.del) {
					if hasAll(pre.X, a.del) {
						return Expect{} // deleting a user xattr that tombstoning strips anyway: spec-silent
					}
					return bad
				}
				x.Succeeds = Yes
				x.Live = No
				x.XSet, x.X, x.XNamed = true, withX(after, nil, a.del), named(a.vals)
				x.ExpSet, x.Exp = true, 0
				return x
			}})
	}
	for _, tok := range []string{"Z", "C", "S"} {
		wtxOp(wtx{name: "_s", tok: tok, vals: xs("_s", `{"by":"wtx"}`)})
		wtxOp(wtx{name: "_s/delbody", tok: tok, vals: xs("_s", `{"by":"wtxd"}`), deleteBody: true, tier: ifi(tok == "C", 0, 1)})
	}
	wtxOp(wtx{name: "_t-del_s", tok: "C", vals: xs("_t", `{"by":"wtxt"}`), del: []string{"_s"}, deleteBody: false})

	resurrect := func(name string, vals map[string][]byte, e uint32, tier int) {
		body := J(`{"v":"res"}`)
		add(Op{Name: name, EP: "WriteResurrectionWithXattrs", Tier: tier,
			Run: func(c *rosmar.Collection, env Env) Result {
				cas, err := c.WriteResurrectionWithXattrs(ctx, "k", e, body, vals, nil)
				r := resErr(err)
				r.Cas = cas
				return r
			},
			Spec: func(pre Doc, env Env) Expect {
				if pre.Live {
					return Expect{Succeeds: No, OutcomeProp: "C06", FailClasses: []string{"keyexists", "casmismatch"}}
				}
				return Expect{Succeeds: Yes, OutcomeProp: "C06", Live: Yes, Body: body, XSet: true, X: xss(vals), XNamed: named(vals), ExpSet: true, Exp: AbsExp(e, env.Now)}
			}})
	}
	add(Op{Name: "WriteResurrectionWithXattrs/preserve", EP: "WriteResurrectionWithXattrs", Tier: 1,
		Run: func(c *rosmar.Collection, env Env) Result {
			cas, err := c.WriteResurrectionWithXattrs(ctx, "k", 0, J(`{"v":"resp"}`), xs("_t", `{"by":"resp"}`), &sgbucket.MutateInOptions{PreserveExpiry: true})
			r := resErr(err)
			r.Cas = cas
			return r
		},
		Spec: func(pre Doc, env Env) Expect {
			if pre.Live {
				return Expect{Succeeds: No, OutcomeProp: "C06", FailClasses: []string{"keyexists", "casmismatch"}}
			}
			// PreserveExpiry when there was no live document: the expiry is spec-silent, but the result is a live document
			return Expect{Succeeds: Yes, OutcomeProp: "C06", Live: Yes, Body: J(`{"v":"resp"}`), XSet: true, X: map[string]string{"_t": `{"by":"resp"}`}, XNamed: map[string]bool{"_t": true}}
		}})
	macroOpts := func() *sgbucket.MutateInOptions {
		return &sgbucket.MutateInOptions{MacroExpansion: []sgbucket.MacroExpansionSpec{
			sgbucket.NewMacroExpansionSpec("_s.cas", sgbucket.MacroCas), sgbucket.NewMacroExpansionSpec("_s.crc", sgbucket.MacroCrc32c)}}
	}
	macroVals := xs("_s", `{"by":"mac","cas":"x","crc":"y"}`)
	add(Op{Name: "WriteWithXattrs/macro-whole-xattr-path/C", EP: "WriteWithXattrs/macro-badpath",
		Run: func(c *rosmar.Collection, env Env) Result {
			opts := &sgbucket.MutateInOptions{MacroExpansion: []sgbucket.MacroExpansionSpec{sgbucket.NewMacroExpansionSpec("_s", sgbucket.MacroCas)}}
			cas, err := c.WriteWithXattrs(ctx, "k", 0, env.Cas("C"), J(`{"v":"mbp"}`), xs("_s", `{"by":"mbp"}`), nil, opts)
			r := resErr(err)
			r.Cas = cas
			return r
		},
		// a macro must address a property inside an xattr: a failure cause like bad JSON - refused, nothing changes
		Spec: func(pre Doc, env Env) Expect { return Expect{Succeeds: No, OutcomeProp: "C07"} }})
	add(Op{Name: "WriteResurrectionWithXattrs/macros", EP: "WriteResurrectionWithXattrs", Tier: 0,
		Run: func(c *rosmar.Collection, env Env) Result {
			cas, err := c.WriteResurrectionWithXattrs(ctx, "k", 0, J(`{"v":"resm"}`), macroVals, macroOpts())
			r := resErr(err)
			r.Cas = cas
			return r
		},
		Spec: func(pre Doc, env Env) Expect {
			if pre.Live {
				return Expect{Succeeds: No, OutcomeProp: "C06", FailClasses: []string{"keyexists", "casmismatch"}}
			}
			return Expect{Succeeds: Yes, OutcomeProp: "C06", Live: Yes, Body: J(`{"v":"resm"}`), XSet: true, X: xss(macroVals), XNamed: named(macroVals), ExpSet: true, Exp: 0, Macros: map[string]string{"_s": "cas+crc"}}
		}})
	add(Op{Name: "WriteTombstoneWithXattrs/macros/C", EP: "WriteTombstoneWithXattrs/macros", Tier: 0,
		Run: func(c *rosmar.Collection, env Env) Result {
			cas, err := c.WriteTombstoneWithXattrs(ctx, "k", 0, env.Cas("C"), macroVals, nil, false, macroOpts())
			r := resErr(err)
			r.Cas = cas
			return r
		},
		Spec: func(pre Doc, env Env) Expect {
			return Expect{Succeeds: Yes, OutcomeProp: "C07", Live: No, XSet: true, X: withX(sysOnly(pre.X), xss(macroVals), nil), XNamed: named(macroVals), ExpSet: true, Exp: 0, Macros: map[string]string{"_s": "cas+crc"}}
		}})
	resurrect("WriteResurrectionWithXattrs/_s", xs("_s", `{"by":"res"}`), 0, 0)
	resurrect("WriteResurrectionWithXattrs/none", nil, relExp, 0)

	// WriteUpdateWithXattrs: the callback decides; the spec follows the dispatch table of Appendix A.
	wux := func(variant string, tier int, cb func(calls *int, doc []byte, x map[string][]byte, cas uint64) (sgbucket.UpdatedDoc, error), spec func(Doc, Env) Expect) {
		add(Op{Name: "WriteUpdateWithXattrs/" + variant, EP: "WriteUpdateWithXattrs/" + variant, Tier: tier,
			Run: func(c *rosmar.Collection, env Env) Result {
				var rr Result
				calls := 0
				cas, err := c.WriteUpdateWithXattrs(ctx, "k", RealXNames, 0, nil, &sgbucket.MutateInOptions{}, func(doc []byte, x map[string][]byte, cas uint64) (sgbucket.UpdatedDoc, error) {
					calls++
					rr.Shown = append(rr.Shown, append([]byte(nil), doc...))
					rr.ShownCas = append(rr.ShownCas, cas)
					rr.ShownX = append(rr.ShownX, xss(x))
					return cb(&calls, doc, x, cas)
				})
				r := resErr(err)
				r.Cas, r.Shown, r.ShownCas, r.ShownX = cas, rr.Shown, rr.ShownCas, rr.ShownX
				return r
			}, Spec: spec})
	}
	wuxBody := J(`{"v":"wux"}`)
	wuxVals := xs("_s", `{"by":"wux"}`)
	wuxUpdSpec := func(pre Doc, env Env) Expect {
		base := map[string]string{}
		if pre.Live {
			base = pre.X
		}
		return Expect{Succeeds: Yes, OutcomeProp: "C07", Live: Yes, Body: wuxBody, XSet: true, X: withX(base, xss(wuxVals), nil), XNamed: named(wuxVals), ExpSet: true, Exp: 0}
	}
	wux("update", 0, func(_ *int, _ []byte, _ map[string][]byte, _ uint64) (sgbucket.UpdatedDoc, error) {
		return sgbucket.UpdatedDoc{Doc: wuxBody, Xattrs: wuxVals}, nil
	}, wuxUpdSpec)
	// the expiry PARAMETER of WriteUpdateWithXattrs (the callback gives none): it is a write with that expiry
	add(Op{Name: "WriteUpdateWithXattrs/expparam", EP: "WriteUpdateWithXattrs/expparam",
		Run: func(c *rosmar.Collection, env Env) Result {
			cas, err := c.WriteUpdateWithXattrs(ctx, "k", RealXNames, relExp, nil, &sgbucket.MutateInOptions{}, func(doc []byte, x map[string][]byte, cas uint64) (sgbucket.UpdatedDoc, error) {
				return sgbucket.UpdatedDoc{Doc: wuxBody, Xattrs: wuxVals}, nil
			})
			r := resErr(err)
			r.Cas = cas
			return r
		},
		Spec: func(pre Doc, env Env) Expect {
			x := wuxUpdSpec(pre, env)
			x.Exp = AbsExp(relExp, env.Now)
			return x
		}})
	wux("retry", 1, func(calls *int, _ []byte, _ map[string][]byte, _ uint64) (sgbucket.UpdatedDoc, error) {
		if *calls == 1 {
			return sgbucket.UpdatedDoc{}, sgbucket.ErrCasFailureShouldRetry
		}
		return sgbucket.UpdatedDoc{Doc: wuxBody, Xattrs: wuxVals}, nil
	}, wuxUpdSpec)
	wux("tombstone", 0, func(_ *int, _ []byte, _ map[string][]byte, _ uint64) (sgbucket.UpdatedDoc, error) {
		return sgbucket.UpdatedDoc{IsTombstone: true, Xattrs: wuxVals}, nil
	}, func(pre Doc, env Env) Expect {
		return Expect{Succeeds: Yes, OutcomeProp: "C07", Live: No, XSet: true, X: withX(sysOnly(pre.X), xss(wuxVals), nil), XNamed: named(wuxVals), ExpSet: true, Exp: 0}
	})
	wux("xonly", 0, func(_ *int, _ []byte, _ map[string][]byte, _ uint64) (sgbucket.UpdatedDoc, error) {
		return sgbucket.UpdatedDoc{Xattrs: xs("_t", `{"by":"wuxt"}`)}, nil
	}, func(pre Doc, env Env) Expect {
		if pre.Row && !pre.Live {
			return Expect{} // an update of a tombstone that supplies no body: spec-silent
		}
		x := Expect{Succeeds: Yes, OutcomeProp: "C07", XSet: true, X: withX(pre.X, map[string]string{"_t": `{"by":"wuxt"}`}, nil), XNamed: map[string]bool{"_t": true}, ExpSet: true, Exp: 0}
		if pre.Live {
			x.Live, x.Body = Yes, pre.Body
		} else {
			x.Live = No
		}
		return x
	})
	wux("macros", 0, func(_ *int, _ []byte, _ map[string][]byte, _ uint64) (sgbucket.UpdatedDoc, error) {
		return sgbucket.UpdatedDoc{Doc: wuxBody, Xattrs: xs("_s", `{"by":"wuxm","cas":"x","crc":"y"}`),
			Spec: []sgbucket.MacroExpansionSpec{sgbucket.NewMacroExpansionSpec("_s.cas", sgbucket.MacroCas), sgbucket.NewMacroExpansionSpec("_s.crc", sgbucket.MacroCrc32c)}}, nil
	}, func(pre Doc, env Env) Expect {
		base := map[string]string{}
		if pre.Live {
			base = pre.X
		}
		return Expect{Succeeds: Yes, OutcomeProp: "C07", Live: Yes, Body: wuxBody, XSet: true, X: withX(base, map[string]string{"_s": `{"by":"wuxm","cas":"x","crc":"y"}`}, nil), XNamed: map[string]bool{"_s": true}, ExpSet: true, Exp: 0, Macros: map[string]string{"_s": "cas+crc"}}
	})
	wux("error", 1, func(_ *int, _ []byte, _ map[string][]byte, _ uint64) (sgbucket.UpdatedDoc, error) {
		return sgbucket.UpdatedDoc{Doc: wuxBody, Xattrs: wuxVals}, errCallback
	}, func(Doc, Env) Expect { return Expect{Succeeds: No, OutcomeProp: "C01"} })

	dwx := func(name string, names []string, tier int) {
		add(Op{Name: name, EP: "DeleteWithXattrs", Tier: tier,
			Run: func(c *rosmar.Collection, env Env) Result { return resErr(c.DeleteWithXattrs(ctx, "k", names)) },
			Spec: func(pre Doc, env Env) Expect {
				if !pre.Row {
					return Expect{Succeeds: No, OutcomeProp: "C07", FailClasses: []string{"missing"}}
				}
				// named xattrs removed, unnamed system xattrs intact, unnamed user xattrs either way (R2)
				return Expect{Live: No, XExcept: true, XSysKeepExcept: names, ExpSet: true, Exp: 0}
			}})
	}
	dwx("DeleteWithXattrs/_s", []string{"_s"}, 0)
	dwx("DeleteWithXattrs/none", nil, 0)

	// ---- UpdateXattrDeleteBody: set one xattr and remove the body, under a CAS ------------------
	for _, tok := range []string{"C", "S"} {
		tok := tok
		add(Op{Name: "UpdateXattrDeleteBody/_s/" + tok, EP: "UpdateXattrDeleteBody",
			Run: func(c *rosmar.Collection, env Env) Result {
				cas, err := c.UpdateXattrDeleteBody(ctx, "k", "_s", 0, env.Cas(tok), map[string]any{"d": 1}, nil)
				r := resErr(err)
				r.Cas = cas
				return r
			},
			Spec: func(pre Doc, env Env) Expect {
				x := Expect{OutcomeProp: "C02", FailClasses: []string{"casmismatch", "missing"}}
				if env.Cas(tok) != pre.Cas {
					x.Succeeds = No
					return x
				}
				if !pre.Live {
					return Expect{} // no body to remove (absent with CAS 0, or a tombstone): spec-silent
				}
				x.Succeeds = Yes
				x.Live = No
				if len(sysOnly(pre.X)) == len(pre.X) {
					// the named xattr is set, the other (system) xattrs stay; with user xattrs present the
					// statement does not say whether this way of tombstoning drops them: silent then
					x.XSet, x.X, x.XNamed = true, withX(pre.X, map[string]string{"_s": `{"d":1}`}, nil), map[string]bool{"_s": true}
				}
				x.ExpSet, x.Exp = true, 0
				return x
			}})
	}

	// ---- WithMeta --------------------------------------------------------------------------
	metaNilBody := false
	meta := func(del bool, oldTok, newTok string, tier int, withExp ...bool) {
		body := J(`{"v":"swm"}`)
		nilBody := metaNilBody
		if nilBody {
			body = nil
		}
		xa := J(`{"_s":{"by":"meta"}}`)
		name := ifs(del, "DeleteWithMeta", "SetWithMeta")
		expOf := func(env Env) uint32 {
			if len(withExp) > 0 {
				return env.Now + 40 // WithMeta takes absolute expiries
			}
			return 0
		}
		add(Op{Name: name + "/" + oldTok + "/" + newTok + ifs(len(withExp) > 0, "/exp", "") + ifs(nilBody, "/nilbody", ""), EP: name, Tier: tier,
			Run: func(c *rosmar.Collection, env Env) Result {
				newCas := env.Cas(newTok)
				var err error
				if del {
					err = c.DeleteWithMeta(ctx, "k", env.Cas(oldTok), newCas, expOf(env), xa)
				} else {
					err = c.SetWithMeta(ctx, "k", env.Cas(oldTok), newCas, expOf(env), xa, body, sgbucket.FeedDataTypeJSON)
				}
				r := resErr(err)
				if err == nil {
					r.Cas = newCas
				}
				return r
			},
			Spec: func(pre Doc, env Env) Expect {
				x := Expect{OutcomeProp: "C02", FailClasses: []string{"casmismatch", "missing"}}
				if env.Cas(oldTok) != pre.Cas {
					x.Succeeds = No
					return x
				}
				x.Succeeds = Yes
				x.CasGiven = env.Cas(newTok)
				x.XSet, x.X, x.XNamed = true, map[string]string{"_s": `{"by":"meta"}`}, map[string]bool{"_s": true}
				x.ExpSet, x.Exp = true, expOf(env)
				if del || nilBody {
					x.Live = No // no body: a tombstone, for every observer (C05)
				} else {
					x.Live, x.Body, x.IsJSON = Yes, body, Yes
				}
				return x
			}})
	}
	meta(false, "C", "AB", 0, true)
	meta(false, "C", "AB", 0)
	meta(false, "Z", "AB", 1)
	meta(false, "S", "AB", 0)
	meta(false, "C", "BE", 0)
	meta(true, "C", "AB", 0)
	meta(true, "S", "AB", 1)
	metaNilBody = true
	meta(false, "C", "AB", 0)
	metaNilBody = false

	// ---- sub-document ----------------------------------------------------------------------
	subdoc := func(insert bool, path, tok string, raw []byte, tier int) {
		name := ifs(insert, "SubdocInsert", "WriteSubDoc")
		vn := "set"
		if len(raw) == 0 {
			vn = "rm"
		}
		add(Op{Name: name + "/" + path + "/" + vn + "/" + tok, EP: name, Tier: tier,
			Run: func(c *rosmar.Collection, env Env) Result {
				if insert {
					var v any
					_ = jsonUnmarshal(raw, &v)
					return resErr(c.SubdocInsert(ctx, "k", path, env.Cas(tok), v))
				}
				cas, err := c.WriteSubDoc(ctx, "k", path, env.Cas(tok), raw)
				r := resErr(err)
				r.Cas = cas
				return r
			},
			Spec: func(pre Doc, env Env) Expect { return SubdocSpec(pre, env.Cas(tok), insert, path, raw) }})
	}
	subdoc(false, "a", "Z", J(`1`), 0)
	subdoc(false, "a.b", "Z", J(`1`), 0) // through a parent that may be an object, absent, a number or null
	subdoc(true, "a.b", "Z", J(`2`), 0)
	subdoc(false, "a", "C", J(`{"z":2}`), 0)
	subdoc(false, "a", "S", J(`1`), 0)
	subdoc(false, "v", "Z", nil, 0)
	subdoc(false, "v.z", "Z", J(`1`), 1)
	subdoc(false, "n.z", "Z", J(`1`), 1)
	subdoc(true, "a", "Z", J(`2`), 0)
	subdoc(true, "v", "Z", J(`2`), 0)
	subdoc(true, "a", "S", J(`2`), 1)

	// ---- bucket level / second key -----------------------------------------------------------
	add(Op{Name: "PurgeTombstones", EP: "PurgeTombstones",
		Bucket: func(b *rosmar.Bucket, env Env) Result {
			n, err := b.PurgeTombstones()
			r := resErr(err)
			r.Num = uint64(n)
			return r
		},
		Spec: func(pre Doc, env Env) Expect {
			if pre.Row && !pre.Live {
				return Expect{Succeeds: Yes, OutcomeProp: "C05", Gone: true}
			}
			return Expect{Succeeds: Yes, OutcomeProp: "C05", NoChange: true}
		}})
	add(Op{Name: "ExpirySweep", EP: "ExpirySweep", Tier: 1,
		Bucket: func(b *rosmar.Bucket, env Env) Result {
			vrt.Advance(25 * time.Second) // every relative/absolute expiry the alphabet sets (10, 20 s) passes; the witnesses' (5000 s) do not
			vrt.Quiesce()
			return Result{}
		},
		Spec: func(pre Doc, env Env) Expect {
			if pre.Live && pre.Exp != 0 && pre.Exp <= env.Now+25 {
				// expired: tombstoned exactly as by Delete, with its event, without any client call
				return Expect{Succeeds: Yes, OutcomeProp: "C14", Live: No, XSet: true, X: sysOnly(pre.X), ExpSet: true, Exp: 0}
			}
			return Expect{Succeeds: Yes, OutcomeProp: "C14", NoChange: true}
		}})
	add(Op{Name: "Set/j", EP: "Set", Key: "j",
		Run: func(c *rosmar.Collection, env Env) Result { return resErr(c.Set("j", 0, nil, J(`{"v":"setj"}`))) },
		Spec: func(pre Doc, env Env) Expect {
			return Expect{Live: Yes, Body: J(`{"v":"setj"}`), XSet: true, X: carriedX(pre), ExpSet: true, Exp: 0}
		}})
	add(Op{Name: "Delete/j", EP: "Delete", Key: "j",
		Run:  func(c *rosmar.Collection, env Env) Result { return resErr(c.Delete("j")) },
		Spec: delSpec(false, "")})
	return ops
}

func totalLen(m map[string][]byte) int {
	n := 0
	for _, v := range m {
		n += len(v)
	}
	return n
}

func ifs(c bool, a, b string) string {
	if c {
		return a
	}
	return b
}

func ifi(c bool, a, b int) int {
	if c {
		return a
	}
	return b
}
