package h

import (
	"fmt"
	"sort"
	"strings"

	"github.com/couchbaselabs/rosmar"
	"github.com/couchbaselabs/rosmar/vrt"
)

// ---- canonical state of the KV world (DESIGN §2.3): taken from the implementation's rows.

func CanonKV(o KVObs) string {
	var cas []uint64
	add := func(v uint64) { cas = append(cas, v) }
	var aLast uint64
	for _, c := range o.Dump.Collections {
		if c.Name == "sc.A" {
			aLast = c.LastCas
		}
	}
	add(aLast)
	for _, k := range []string{"sc.A/k", "sc.A/j"} {
		if r := o.Rows[k]; r != nil {
			add(r.Cas)
		}
	}
	sort.Slice(cas, func(i, j int) bool { return cas[i] < cas[j] })
	rank := map[uint64]int{}
	for _, v := range cas {
		if _, ok := rank[v]; !ok {
			rank[v] = len(rank)
		}
	}
	var b strings.Builder
	for _, k := range []string{"sc.A/k", "sc.A/j"} {
		r := o.Rows[k]
		if r == nil {
			fmt.Fprintf(&b, "%s:-;", k)
			continue
		}
		fmt.Fprintf(&b, "%s:v=%q/%v json=%v x=%q exp=%d tomb=%d cas#%d;", k, r.Value, r.HasValue, r.IsJSON, r.Xattrs, r.Exp, r.Tombstone, rank[r.Cas])
	}
	fmt.Fprintf(&b, "last#%d;", rank[aLast])
	fmt.Fprintf(&b, "Bj=%v;", o.Rows["sc.B/j"] != nil)
	fmt.Fprintf(&b, "fmnil=%v;feeds=%v;next=%d/%v", o.FeedMapNil, o.FeedCounts, o.NextExp, o.HasTimer)
	return b.String()
}

// ---- one job: expand one state (reached by Path) with every operation of the alphabet.

type KVJob struct {
	Cfg  Config   `json:"cfg"`
	Path []string `json:"path"`
	Tier int      `json:"tier"`
	Only []string `json:"only,omitempty"` // restrict the operations tried (replay)
	Full bool     `json:"full,omitempty"` // include full observations in the result (replay)
	ExtraBackfills bool `json:"extraBackfills,omitempty"`
}

type KVTransition struct {
	Op         string      `json:"op"`
	Result     string      `json:"result"`
	Violations []Violation `json:"violations,omitempty"`
	Succ       string      `json:"succ"`
	Abnormal   string      `json:"abnormal,omitempty"` // deadlock / panic / leak in this execution
	Pre        *KVObs      `json:"pre,omitempty"`
	Post       *KVObs      `json:"post,omitempty"`
	Res        *Result     `json:"res,omitempty"`
}

type KVJobResult struct {
	State string         `json:"state"`
	Trans []KVTransition `json:"trans"`
	Err   string         `json:"err,omitempty"`
	NonDet string        `json:"nondet,omitempty"`
}

var kvAlphabet = KVAlphabet()
var kvByName = func() map[string]int {
	m := map[string]int{}
	for i, o := range kvAlphabet {
		if _, dup := m[o.Name]; dup {
			panic("duplicate op name " + o.Name)
		}
		m[o.Name] = i
	}
	return m
}()

func envOf(o KVObs, key string, issued uint64) Env {
	e := Env{Now: uint32(o.Now / 1e9), MaxCas: o.MaxCasAll, MinCas: o.MinCasA, Issued: issued}
	if r := o.Rows["sc.A/"+key]; r != nil {
		e.Cur = r.Cas
	}
	return e
}

// quickEnv resolves tokens without a full observation (used while replaying a path).
func quickEnv(w *KVWorld, key string) Env {
	d, err := rosmar.VerifDumpAll(w.H[0])
	must(err)
	e := Env{Now: NowSecs()}
	e.MaxCas = d.BucketLastCas
	for _, r := range d.Docs {
		if r.Cas > e.MaxCas {
			e.MaxCas = r.Cas
		}
		if r.Collection == "sc.A" {
			if r.Key == key {
				e.Cur = r.Cas
			}
			if e.MinCas == 0 || r.Cas < e.MinCas {
				e.MinCas = r.Cas
			}
		}
	}
	if w.H2 != nil {
		d2, err := rosmar.VerifDumpAll(w.H2)
		must(err)
		if d2.BucketLastCas > e.MaxCas {
			e.MaxCas = d2.BucketLastCas
		}
	}
	return e
}

func runOp(w *KVWorld, idx int, env Env) (res Result) {
	op := kvAlphabet[idx]
	defer func() {
		if r := recover(); r != nil {
			if fmt.Sprintf("%T", r) == "vrt.abortSignal" {
				panic(r)
			}
			res.Panic = fmt.Sprint(r)
		}
	}()
	if op.Bucket != nil {
		return op.Bucket(w.HB, env)
	}
	return op.Run(w.Handle(idx), env)
}

func schedOpts(w func() *rosmar.Bucket) *vrt.Sched {
	return &vrt.Sched{NoYield: func() bool {
		b := w()
		return b != nil && rosmar.VerifIsInMemory(b) && rosmar.VerifInUse(b) > 0
	}}
}

func resetProcess() {
	rosmar.VerifResetGlobals()
	vrt.ResetClock()
}

// ExpandKV runs one fresh execution per operation: replay Path, observe, apply the operation, observe, check.
func ExpandKV(job KVJob) KVJobResult {
	var out KVJobResult
	var cachedPre *KVObs
	ops := make([]int, 0, len(kvAlphabet))
	for i, o := range kvAlphabet {
		if o.Tier > job.Tier {
			continue
		}
		if job.Only != nil && !inList(o.Name, job.Only) {
			continue
		}
		ops = append(ops, i)
	}
	for n, idx := range ops {
		op := kvAlphabet[idx]
		var tr KVTransition
		tr.Op = op.Name
		var w *KVWorld
		resetProcess()
		cfg := job.Cfg
		if cfg.Disk {
			cfg.Root = NewScratchDir()
		}
		oc := vrt.Run(nil, schedOpts(func() *rosmar.Bucket {
			if w == nil || len(w.H) == 0 {
				return nil
			}
			return w.H[0]
		}), func() {
			w = NewKVWorld(cfg)
			w.ExtraBackfills = job.ExtraBackfills
			// issued: the highest CAS the clock has handed out so far. WithMeta writes store client-chosen
			// CAS values and are exempt from C04, so they do not count.
			issued := quickEnv(w, "k").MaxCas
			for _, name := range job.Path {
				i, ok := kvByName[name]
				if !ok {
					panic("unknown op in path: " + name)
				}
				e0 := quickEnv(w, kvAlphabet[i].Key)
				r := runOp(w, i, e0)
				if r.Panic != "" {
					panic("replayed path panicked at " + name + ": " + r.Panic)
				}
				vrt.Quiesce()
				if !strings.Contains(kvAlphabet[i].EP, "WithMeta") && r.OK() {
					if c := quickEnv(w, kvAlphabet[i].Key).Cur; c != e0.Cur && c > issued {
						issued = c
					}
				}
			}
			var pre KVObs
			if cachedPre == nil || n == 1 || job.Full {
				pre = w.Observe()
				if cachedPre != nil && CanonKV(pre) != CanonKV(*cachedPre) {
					out.NonDet = fmt.Sprintf("same path, different state:\n%s\n%s", CanonKV(pre), CanonKV(*cachedPre))
				}
				if cachedPre == nil {
					cachedPre = &pre
					out.State = CanonKV(pre)
				}
			} else {
				vrt.Quiesce()
				for _, f := range w.Feeds {
					f.Take()
				}
				pre = *cachedPre
			}
			env := envOf(pre, op.Key, issued)
			res := runOp(w, idx, env)
			post := w.Observe()
			tr.Result = res.String()
			tr.Violations = CheckKVStep(op, env, pre, post, res)
			tr.Succ = CanonKV(post)
			if cfg.Disk && res.Panic == "" {
				tr.Violations = append(tr.Violations, w.ReopenDifferential(op.Name, post)...)
			}
			if job.Full {
				tr.Pre, tr.Post, tr.Res = &pre, &post, &res
			}
			w.Close()
		})
		if cfg.Disk {
			removeAll(cfg.Root)
		}
		switch {
		case oc.Diverged != "":
			out.Err = oc.Diverged
		case oc.Panic != "":
			tr.Abnormal = "panic: " + oc.Panic
			if len(oc.PanicLocks) > 0 {
				tr.Abnormal += fmt.Sprintf(" [locks left held: %v]", oc.PanicLocks)
			}
		case oc.Deadlock:
			tr.Abnormal = fmt.Sprintf("deadlock: %v held=%v", oc.Blocked, oc.HeldLocks)
		case oc.StepLimit:
			tr.Abnormal = "step limit"
		case len(oc.Leaked) > 0:
			tr.Abnormal = fmt.Sprintf("leaked threads: %v", oc.Leaked)
		}
		if strings.HasPrefix(tr.Abnormal, "panic: ") && strings.Contains(tr.Abnormal, "replayed path panicked") {
			out.Err = tr.Abnormal
		}
		out.Trans = append(out.Trans, tr)
	}
	return out
}
