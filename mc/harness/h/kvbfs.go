package h

import (
	"encoding/json"
	"fmt"
	"time"
)

type KVReplay struct {
	Kind string   `json:"kind"`
	Cfg  Config   `json:"cfg"`
	Path []string `json:"path"`
	Op   string   `json:"op"`
}

func init() {
	RegisterHandler("kv", func(raw json.RawMessage) (any, error) {
		var job KVJob
		if err := json.Unmarshal(raw, &job); err != nil {
			return nil, err
		}
		return ExpandKV(job), nil
	})
}

// RunKVBFS explores the shared key-value world breadth-first up to depth (number of operations),
// applying every alphabet operation in every canonical state reached.
func RunKVBFS(rep *Report, pool *Pool, cfg Config, depth, tier int, deadline time.Time) {
	label := "mem"
	if cfg.Disk {
		label = "disk"
	}
	type st struct{ path []string }
	frontier := []st{{nil}}
	seen := map[string]bool{}
	trans, execs := 0, 0
	maxDepth := 0
	closed := false
	for d := 0; d < depth && len(frontier) > 0; d++ {
		jobs := make([]any, len(frontier))
		for i, s := range frontier {
			jobs[i] = KVJob{Cfg: cfg, Path: s.path, Tier: tier, ExtraBackfills: rep.Prop == "C09" || rep.Prop == "ALL"}
		}
		var next []st
		cut := false
		pool.Map("kv", jobs, 300*time.Second, func(o JobOutcome) {
			path := frontier[o.Index].path
			if o.Err != "" {
				if o.Timeout {
					rep.AddViolation(Violation{Prop: "C20", Op: "?", Pre: "?", Field: "hang", Detail: fmt.Sprintf("expanding %v hung (native deadlock?)", path)}, KVReplay{"kv", cfg, path, ""})
					if rep.Prop != "C20" {
						rep.Notes = append(rep.Notes, fmt.Sprintf("state %v: expansion timed out", path))
						rep.Exhaustive = false
					}
				} else {
					rep.Internal = append(rep.Internal, fmt.Sprintf("kv job %v: %s", path, o.Err))
				}
				return
			}
			var res KVJobResult
			if err := json.Unmarshal(o.Data, &res); err != nil {
				rep.Internal = append(rep.Internal, err.Error())
				return
			}
			if res.Err != "" {
				rep.Internal = append(rep.Internal, fmt.Sprintf("kv job %v: %s", path, res.Err))
				return
			}
			if res.NonDet != "" {
				rep.Internal = append(rep.Internal, fmt.Sprintf("kv job %v: nondeterministic replay: %s", path, res.NonDet))
				return
			}
			if d == 0 {
				seen[res.State] = true
			}
			for _, tr := range res.Trans {
				trans++
				execs++
				rep.Outcome(tr.Op, tr.Result)
				mine := false
				rp := KVReplay{"kv", cfg, path, tr.Op}
				for _, v := range tr.Violations {
					if rep.AddViolation(v, rp) {
						mine = true
					}
				}
				if tr.Abnormal != "" {
					v := Violation{Prop: "C20", Op: tr.Op, Pre: "seq", Field: "abnormal", Detail: tr.Abnormal}
					rep.AddViolation(v, rp)
					continue // never expand past a poisoned execution
				}
				if mine || tr.Result == "PANIC" {
					continue // prune at the first violation of the property under check
				}
				if !seen[tr.Succ] {
					seen[tr.Succ] = true
					np := append(append([]string(nil), path...), tr.Op)
					next = append(next, st{np})
					if len(np) > maxDepth {
						maxDepth = len(np)
					}
					if len(np) <= 3 {
						rep.AddSample(map[string]any{"world": label, "path": np, "state": tr.Succ})
					}
				}
			}
			if time.Now().After(deadline) {
				cut = true
			}
		})
		if cut {
			rep.Exhaustive = false
			rep.Notes = append(rep.Notes, fmt.Sprintf("%s: internal deadline reached at depth %d; levels below were fully covered", label, d+1))
			frontier = nil
			break
		}
		frontier = next
	}
	if len(frontier) == 0 {
		closed = true
	}
	rep.States += len(seen)
	rep.Transitions += trans
	rep.Executions += execs
	rep.Extra["kv_"+label] = map[string]any{"depth_bound": depth, "states": len(seen), "transitions": trans, "max_path": maxDepth, "state_graph_closed_below_bound": closed, "unexpanded_frontier": len(frontier)}
}
