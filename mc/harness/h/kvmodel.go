package h

import (
	"bytes"
	"encoding/json"
	"fmt"
	"sort"

	"github.com/couchbaselabs/rosmar"
)

// Doc is the specification's view of one document: derived from the raw row. "Live" means "has a
// body" - the single definition of tombstone-ness every property statement uses.
type Doc struct {
	Row    bool
	Live   bool
	Body   []byte
	IsJSON bool
	X      map[string]string // xattr name -> raw JSON value, nil/empty = none
	XBad   bool              // stored xattrs are not a JSON object
	Exp    uint32
	Cas    uint64
	Rev    int64
	Flag   int64 // the stored, redundant tombstone flag
}

func DocFromRow(r *rosmar.VerifDocRow) Doc {
	if r == nil {
		return Doc{}
	}
	d := Doc{Row: true, Live: r.HasValue, Body: r.Value, IsJSON: r.IsJSON, Exp: r.Exp, Cas: r.Cas, Rev: r.RevSeqNo, Flag: r.Tombstone}
	if r.Xattrs != nil {
		var m map[string]json.RawMessage
		if err := json.Unmarshal(r.Xattrs, &m); err != nil {
			d.XBad = true
		}
		d.X = map[string]string{}
		for k, v := range m {
			d.X[k] = string(v)
		}
	}
	return d
}

// SigClass is the coarse pre-state class used in violation signatures.
func (d Doc) SigClass() string {
	c := "absent"
	switch {
	case d.Row && d.Live:
		c = "live"
	case d.Row && !d.Live:
		c = "tomb"
	}
	if d.Row && (d.Flag != 0) != !d.Live {
		c += "+incoherent-flag"
	}
	return c
}

// Class is the detailed abstract pre-state class (reported in violation details).
func (d Doc) Class() string {
	c := "absent"
	switch {
	case d.Row && d.Live:
		c = "live"
	case d.Row && !d.Live:
		c = "tomb"
	}
	if d.Row {
		sys, usr := false, false
		for k := range d.X {
			if len(k) > 0 && k[0] == '_' {
				sys = true
			} else {
				usr = true
			}
		}
		if sys {
			c += "+sx"
		}
		if usr {
			c += "+ux"
		}
		if d.Exp != 0 {
			c += "+exp"
		}
		if d.Live && !d.IsJSON {
			c += "+raw"
		}
		if (d.Flag != 0) != !d.Live {
			c += fmt.Sprintf("+flag%d", d.Flag)
		}
	}
	return c
}

func isSystemXattr(k string) bool { return len(k) > 0 && k[0] == '_' }

func copyX(m map[string]string) map[string]string {
	out := map[string]string{}
	for k, v := range m {
		out[k] = v
	}
	return out
}

func sysOnly(m map[string]string) map[string]string {
	out := map[string]string{}
	for k, v := range m {
		if isSystemXattr(k) {
			out[k] = v
		}
	}
	return out
}

func withX(m map[string]string, set map[string]string, del []string) map[string]string {
	out := copyX(m)
	for k, v := range set {
		out[k] = v
	}
	for _, k := range del {
		delete(out, k)
	}
	return out
}

func hasAll(m map[string]string, names []string) bool {
	for _, n := range names {
		if _, ok := m[n]; !ok {
			return false
		}
	}
	return true
}

func JSONEqual(a, b []byte) bool {
	var x, y any
	if json.Unmarshal(a, &x) != nil || json.Unmarshal(b, &y) != nil {
		return bytes.Equal(a, b)
	}
	xa, _ := json.Marshal(x)
	ya, _ := json.Marshal(y)
	return bytes.Equal(xa, ya)
}

func fmtX(m map[string]string) string {
	ks := make([]string, 0, len(m))
	for k := range m {
		ks = append(ks, k)
	}
	sort.Strings(ks)
	var b bytes.Buffer
	b.WriteByte('{')
	for i, k := range ks {
		if i > 0 {
			b.WriteByte(',')
		}
		fmt.Fprintf(&b, "%s:%s", k, m[k])
	}
	b.WriteByte('}')
	return b.String()
}

// AbsExp is the specification's reading of an expiry argument: 0 = never, <= 30 days = offset.
func AbsExp(e uint32, now uint32) uint32 {
	if e > 0 && e <= 60*60*24*30 {
		return e + now
	}
	return e
}

type Tri int

const (
	Silent Tri = iota
	Yes
	No
)

// Expect is what the property statements determine about one operation applied to one pre-state.
// Every field may be silent (R1): then the implementation's behaviour is adopted.
type Expect struct {
	Succeeds    Tri      // must the call succeed / be refused?
	OutcomeProp string   // which property decides Succeeds (C02, C06, C07, C18)
	FailClasses []string // acceptable error classes when refused (nil = any error)
	// post-state when the call succeeded:
	NoChange bool // success, but nothing is written (cancelled update)
	Gone     bool // the row must not exist afterwards (purge)
	Live     Tri
	Body     []byte // expected body when Live==Yes (nil = silent)
	BodyJSON bool   // compare as JSON values rather than bytes
	XSet     bool   // X is determined
	X        map[string]string
	XNamed   map[string]bool // names whose values compare semantically (the op set them); others byte-for-byte
	XSysKeep bool            // only: system xattrs of the pre-state survive byte-for-byte (user ones silent)
	XSysKeepExcept []string  // like XSysKeep, but these names must be gone (nil = not used)
	XExcept  bool            // XSysKeepExcept is in force
	ExpSet   bool
	Exp      uint32
	CasGiven uint64 // non-zero: exact CAS (WithMeta); zero: a fresh CAS unless SameCas
	SameCas  bool   // touch: CAS unchanged
	EventOptional bool // touch: an event is neither required nor forbidden
	IsJSON   Tri
	Macros   map[string]string // xattr name -> "cas"/"crc" fields to verify inside that xattr
}

type Result struct {
	Err      string   `json:"err,omitempty"`
	ErrMsg   string   `json:"errMsg,omitempty"`
	Cas      uint64   `json:"cas,omitempty"`
	Refused  bool     `json:"refused,omitempty"` // added=false
	Val      []byte   `json:"val,omitempty"`
	Num      uint64   `json:"num,omitempty"`
	Shown    [][]byte `json:"shown,omitempty"`    // bodies shown to an update callback
	ShownCas []uint64 `json:"shownCas,omitempty"` // CAS shown (WriteUpdateWithXattrs)
	ShownX   []map[string]string `json:"shownX,omitempty"`
	Panic    string   `json:"panic,omitempty"`
}

func (r Result) OK() bool { return r.Err == "" && !r.Refused && r.Panic == "" }

func (r Result) String() string {
	switch {
	case r.Panic != "":
		return "PANIC"
	case r.Refused:
		return "refused"
	case r.Err != "":
		return "err:" + r.Err
	}
	return "ok"
}

// Env resolves symbolic arguments (CAS tokens, clock) against the state an operation starts from.
type Env struct {
	Now    uint32
	Cur    uint64 // current CAS of the subject key (0 if no row)
	MaxCas uint64 // highest CAS stored anywhere in bucket b1
	Issued uint64 // highest CAS handed out by the clock so far (WithMeta CAS values excluded)
	MinCas uint64
}

// CAS tokens: Z = 0, C = current, S = stale (a value the document does not carry), AB/BE = above / below
// every stored CAS (WithMeta only).
func (e Env) Cas(tok string) uint64 {
	switch tok {
	case "Z":
		return 0
	case "C":
		return e.Cur
	case "S":
		if e.Cur > 1 {
			return e.Cur - 1
		}
		return 7777
	case "AB":
		return e.MaxCas + 0x100000
	case "BE":
		if e.MinCas > 0x10 {
			return e.MinCas - 0x10
		}
		return 3
	}
	panic("bad cas token " + tok)
}

type Violation struct {
	Prop   string `json:"prop"`
	Op     string `json:"op"`
	Pre    string `json:"pre"`
	Field  string `json:"field"`
	Detail string `json:"detail"`
}

func (v Violation) Sig() string { return v.Prop + "|" + v.Op + "|" + v.Pre + "|" + v.Field }
