package h

import (
	"time"
	"fmt"
	"sort"
	"strings"

	sgbucket "github.com/couchbase/sg-bucket"
	"github.com/couchbaselabs/rosmar"
	"github.com/couchbaselabs/rosmar/vrt"
)

// ---- C13(b): concurrent opens and closes of an already-created on-disk bucket ------------------------

func init() {
	setup := func(w *SWorld) {
		b, err := rosmar.OpenBucket(BucketURL(w.Cfg, "b1"), "b1", rosmar.CreateNew)
		must(err)
		must(coll(b, NameA).SetRaw("m", 0, nil, []byte("marker")))
		b.Close(ctx)
	}
	openProbeClose := func(mode rosmar.OpenMode, twice bool) []SOp {
		ops := []SOp{
			{Name: "Open", Do: func(w *SWorld, st *TState) (string, []uint64) {
				b, err := rosmar.OpenBucket(BucketURL(w.Cfg, "b1"), "b1", mode)
				if err != nil {
					return "err:" + err.Error(), nil
				}
				w.Extra = append(w.Extra, b)
				st.Vals["h"] = fmt.Sprint(len(w.Extra) - 1)
				return "ok", nil
			}},
			{Name: "probe", Do: func(w *SWorld, st *TState) (string, []uint64) {
				if st.Vals["h"] == "" {
					return "nohandle", nil
				}
				var i int
				fmt.Sscanf(st.Vals["h"], "%d", &i)
				ds, err := w.Extra[i].NamedDataStore(NameA)
				if err != nil {
					return "err:" + err.Error(), nil
				}
				v, _, err := ds.(*rosmar.Collection).GetRaw("m")
				if err != nil {
					return "err:" + err.Error(), nil
				}
				return string(v), nil
			}},
		}
		closeOp := SOp{Name: "Close", Do: func(w *SWorld, st *TState) (string, []uint64) {
			if st.Vals["h"] == "" {
				return "nohandle", nil
			}
			var i int
			fmt.Sscanf(st.Vals["h"], "%d", &i)
			w.Extra[i].Close(ctx)
			return "ok", nil
		}}
		if twice {
			return append(ops, ops[1], closeOp)
		}
		return append(ops, closeOp)
	}
	check := func(name string) func(w *SWorld, ops []OpRec, final string) []Violation {
		return func(w *SWorld, ops []OpRec, final string) []Violation {
			var vs []Violation
			for _, o := range ops {
				if o.Name == "Open" && o.Out != "ok" {
					vs = append(vs, Violation{Prop: "C13", Op: name, Pre: "sched", Field: "open-failed", Detail: fmt.Sprintf("thread %d: opening the existing bucket failed: %s", o.Thread, o.Out)})
				}
				if o.Name == "probe" && o.Out != "marker" {
					vs = append(vs, Violation{Prop: "C13", Op: name, Pre: "sched", Field: "probe-failed", Detail: fmt.Sprintf("thread %d: a read through a handle that is open (between its Open and its Close) returned %q", o.Thread, o.Out)})
				}
			}
			names := rosmar.GetBucketNames()
			counts, _ := rosmar.VerifRegistry()
			if len(names) != 0 || len(counts) != 0 {
				vs = append(vs, Violation{Prop: "C13", Op: name, Pre: "sched", Field: "registry", Detail: fmt.Sprintf("every handle was closed but the registry still holds names %v counts %v", names, counts)})
			}
			// data intact on reopen
			b, err := rosmar.OpenBucket(BucketURL(w.Cfg, "b1"), "b1", rosmar.ReOpenExisting)
			if err != nil {
				vs = append(vs, Violation{Prop: "C13", Op: name, Pre: "sched", Field: "reopen", Detail: "cannot reopen after all handles were closed: " + err.Error()})
				return vs
			}
			if v, _, err := coll(b, NameA).GetRaw("m"); err != nil || string(v) != "marker" {
				vs = append(vs, Violation{Prop: "C13", Op: name, Pre: "sched", Field: "reopen", Detail: fmt.Sprintf("data after reopen: %q %v", v, err)})
			}
			w.Extra = append(w.Extra, b)
			return vs
		}
	}
	// the last handle closes while another goroutine opens the bucket again, starts a feed and writes:
	// a handle that OpenBucket returned stays fully usable until IT is closed
	openFeedWrite := []SOp{
		{Name: "Open", Do: func(w *SWorld, st *TState) (string, []uint64) {
			b, err := rosmar.OpenBucket(BucketURL(w.Cfg, "b1"), "b1", rosmar.ReOpenExisting)
			if err != nil {
				return "err:" + err.Error(), nil
			}
			w.Extra = append(w.Extra, b)
			st.Vals["h"] = fmt.Sprint(len(w.Extra) - 1)
			return "ok", nil
		}},
		{Name: "start feed + write + read back", Do: func(w *SWorld, st *TState) (string, []uint64) {
			if st.Vals["h"] == "" {
				return "nohandle", nil
			}
			var i int
			fmt.Sscanf(st.Vals["h"], "%d", &i)
			ds, err := w.Extra[i].NamedDataStore(NameA)
			if err != nil {
				return "err:" + err.Error(), nil
			}
			c := ds.(*rosmar.Collection)
			f, err := StartLiveFeed(c, "h3feed")
			if err != nil {
				return "err:" + err.Error(), nil
			}
			w.Feeds = append(w.Feeds, f)
			if err := c.SetRaw("w", 0, nil, []byte("1")); err != nil {
				return "err:" + err.Error(), nil
			}
			vrt.Yield("let deliveries happen")
			if _, _, err := c.GetRaw("w"); err != nil {
				return "err:" + err.Error(), nil
			}
			st.Vals["feed"] = fmt.Sprint(len(w.Feeds) - 1)
			return "ok", nil
		}},
	}
	closeFirst := []SOp{{Name: "Close(first handle)", Do: func(w *SWorld, st *TState) (string, []uint64) {
		w.Extra[0].Close(ctx)
		return "ok", nil
	}}}
	RegisterScenario(&Scenario{Name: "O-lastclose-vs-open-feed/disk", Prop: []string{"C13", "C16"}, Disk: true, NoOpen: true,
		Setup: func(w *SWorld) {
			setup(w)
			b, err := rosmar.OpenBucket(BucketURL(w.Cfg, "b1"), "b1", rosmar.ReOpenExisting)
			must(err)
			w.Extra = append(w.Extra, b)
		},
		Threads: [][]SOp{closeFirst, openFeedWrite},
		Check: func(w *SWorld, ops []OpRec, final string) []Violation {
			var vs []Violation
			name := "O-lastclose-vs-open-feed/disk"
			for _, o := range ops {
				if (o.Name == "Open" || strings.HasPrefix(o.Name, "start feed")) && o.Out != "ok" {
					vs = append(vs, Violation{Prop: "C13", Op: name, Pre: "sched", Field: "open-handle-unusable", Detail: fmt.Sprintf("%s through a handle OpenBucket had just returned: %s", o.Name, o.Out)})
				}
			}
			// the new handle is still open: its feed must still be running and must have seen the write
			for _, f := range w.Feeds {
				if f.Name != "h3feed" {
					continue
				}
				if f.DoneClosed() {
					vs = append(vs, Violation{Prop: "C16", Op: name, Pre: "sched", Field: "stopped", Detail: "closing the previous last handle ended a feed started through a handle that is still open"})
				}
				got := false
				for _, e := range f.Events {
					if e.Key == "w" {
						got = true
					}
				}
				if !got {
					vs = append(vs, Violation{Prop: "C16", Op: name, Pre: "sched", Field: "starved", Detail: fmt.Sprintf("the feed of the still-open handle never received the write made through it: %v", f.Events)})
				}
			}
			return vs
		}})
	RegisterScenario(&Scenario{Name: "O-open2/disk", Prop: []string{"C13"}, Disk: true, NoOpen: true, Setup: setup,
		Threads: [][]SOp{openProbeClose(rosmar.ReOpenExisting, false), openProbeClose(rosmar.CreateOrOpen, true)}, Check: check("O-open2/disk")})
	// the same race on a bucket with a pending expiry; afterwards time passes: a timer armed by an opener
	// that lost the race (and was closed) must not fire on its closed store, and the document still expires
	setupExp := func(w *SWorld) {
		b, err := rosmar.OpenBucket(BucketURL(w.Cfg, "b1"), "b1", rosmar.CreateNew)
		must(err)
		must(coll(b, NameA).SetRaw("m", 0, nil, []byte("marker")))
		must(coll(b, NameA).SetRaw("e", 10, nil, []byte("expiring")))
		b.Close(ctx)
	}
	RegisterScenario(&Scenario{Name: "O-open2-pending-expiry/disk", Prop: []string{"C13", "C20"}, Disk: true, NoOpen: true, Setup: setupExp,
		Threads: [][]SOp{openProbeClose(rosmar.ReOpenExisting, false), openProbeClose(rosmar.CreateOrOpen, false)},
		Check: func(w *SWorld, ops []OpRec, final string) []Violation {
			vs := check("O-open2-pending-expiry/disk")(w, ops, final)
			vrt.Advance(120 * time.Second)
			vrt.Quiesce()
			if len(w.Extra) > 0 {
				if _, _, err := coll(w.Extra[len(w.Extra)-1], NameA).GetRaw("e"); err == nil {
					vs = append(vs, Violation{Prop: "C14", Op: "O-open2-pending-expiry/disk", Pre: "sched", Field: "outlived", Detail: "the document with a pending expiry is still readable 110 s after its deadline in the reopened bucket"})
				}
			}
			return vs
		}})
	RegisterScenario(&Scenario{Name: "O-open3/disk", Prop: []string{"C13"}, Disk: true, NoOpen: true, Setup: setup,
		Threads: [][]SOp{openProbeClose(rosmar.ReOpenExisting, false), openProbeClose(rosmar.ReOpenExisting, false), openProbeClose(rosmar.CreateOrOpen, false)}, Check: check("O-open3/disk")})
}

// ---- C04(c): CAS under concurrency ---------------------------------------------------------------------

func init() {
	// the clock alone
	nowOp := SOp{Name: "hlc.Now", Do: func(w *SWorld, st *TState) (string, []uint64) {
		v := rosmar.VerifGlobalHLCNow()
		return "«0»", []uint64{v}
	}}
	casOrder := func(name string, perKey bool) func(w *SWorld, ops []OpRec, final string) []Violation {
		return func(w *SWorld, ops []OpRec, final string) []Violation {
			var vs []Violation
			seen := map[uint64]string{}
			for _, o := range ops {
				if len(o.Cas) == 0 || o.Cas[0] == 0 {
					continue
				}
				id := fmt.Sprintf("t%d.%d", o.Thread, o.Index)
				if other, dup := seen[o.Cas[0]]; dup {
					vs = append(vs, Violation{Prop: "C04", Op: name, Pre: "sched", Field: "duplicate", Detail: fmt.Sprintf("%s and %s were both stamped %d", other, id, o.Cas[0])})
				}
				seen[o.Cas[0]] = id
			}
			for _, a := range ops {
				for _, b := range ops {
					if len(a.Cas) == 0 || len(b.Cas) == 0 || a.Cas[0] == 0 || b.Cas[0] == 0 {
						continue
					}
					if a.Ret < b.Inv && a.Cas[0] >= b.Cas[0] {
						vs = append(vs, Violation{Prop: "C04", Op: name, Pre: "sched", Field: "order", Detail: fmt.Sprintf("%s (t%d) returned CAS %d before %s (t%d) was called, which was stamped %d", a.Name, a.Thread, a.Cas[0], b.Name, b.Thread, b.Cas[0])})
					}
				}
			}
			if perKey {
				// the stored CAS of every key is the largest CAS any successful write to it was given
				max := map[string]uint64{}
				for _, o := range ops {
					if len(o.Cas) == 0 || o.Cas[0] == 0 {
						continue
					}
					k := strings.TrimPrefix(o.Name, "Update ")
					if o.Cas[0] > max[k] {
						max[k] = o.Cas[0]
					}
				}
				for k, m := range max {
					parts := strings.SplitN(k, "/", 2)
					var b *rosmar.Bucket
					if parts[0] == "b1" {
						b = w.H[0]
					} else {
						b = w.Extra[0]
					}
					d, err := rosmar.VerifDumpAll(b)
					var cas uint64
					if r := rowsOf(d)["sc.A/"+parts[1]]; r != nil {
						cas = r.Cas
					}
					if err != nil || cas != m {
						vs = append(vs, Violation{Prop: "C04", Op: name, Pre: "sched", Field: "later-write-smaller-cas", Detail: fmt.Sprintf("key %s: stored CAS %d (%v) but a write to it was stamped %d", k, cas, err, m)})
					}
				}
			}
			return vs
		}
	}
	RegisterScenario(&Scenario{Name: "H-now/mem", Prop: []string{"C04"}, Handles: 1,
		Threads: [][]SOp{{nowOp, nowOp}, {nowOp, nowOp}, {nowOp, nowOp}}, Check: casOrder("H-now/mem", false)})
	write := func(bucket, key, body string) SOp {
		return SOp{Name: "Update " + bucket + "/" + key, Do: func(w *SWorld, st *TState) (string, []uint64) {
			var c *rosmar.Collection
			if bucket == "b1" {
				c = w.C(st.T)
			} else {
				c = coll(w.Extra[0], NameA)
			}
			cas, err := c.Update(key, 0, func([]byte) ([]byte, *uint32, bool, error) { return []byte(body), nil, false, nil })
			return fmt.Sprintf("%s «0»", ec(err)), []uint64{cas}
		}}
	}
	// an unconditional write that reports the CAS it was given (SetXattrs has no CAS check)
	blind := func(bucket, key, xname string) SOp {
		return SOp{Name: "Update " + bucket + "/" + key, Do: func(w *SWorld, st *TState) (string, []uint64) {
			var c *rosmar.Collection
			if bucket == "b1" {
				c = w.C(st.T)
			} else {
				c = coll(w.Extra[0], NameA)
			}
			cas, err := c.SetXattrs(ctx, key, map[string][]byte{xname: []byte(`{"x":1}`)})
			return fmt.Sprintf("%s «0»", ec(err)), []uint64{cas}
		}}
	}
	openB2 := func(w *SWorld) {
		b2, err := rosmar.OpenBucket(BucketURL(w.Cfg, "b2"), "b2", rosmar.CreateOrOpen)
		must(err)
		w.Extra = append(w.Extra, b2)
	}
	for _, disk := range []bool{false, true} {
		name := "H-writers/" + ifs(disk, "disk", "mem")
		RegisterScenario(&Scenario{Name: name, Prop: []string{"C04"}, Disk: disk, Handles: 2, Setup: openB2, Keys: []string{"k"},
			Threads: [][]SOp{{write("b1", "k", "a1"), write("b1", "k", "a2")}, {write("b1", "k", "b1")}, {write("b2", "k", "c1"), write("b2", "j", "c2")}},
			Check:   casOrder(name, true)})
		name2 := "H-blind-writers/" + ifs(disk, "disk", "mem")
		RegisterScenario(&Scenario{Name: name2, Prop: []string{"C04"}, Disk: disk, Handles: 2, Setup: openB2, Keys: []string{"k"},
			Threads: [][]SOp{{blind("b1", "k", "_a"), blind("b1", "k", "_a")}, {blind("b1", "k", "_b")}, {blind("b2", "k", "_c"), write("b1", "k", "c2")}},
			Check:   casOrder(name2, true)})
	}
}

// ---- C17 under concurrency: the revision counts every successful mutation -----------------------------

func init() {
	mut := func(name string, f func(c *rosmar.Collection) error) SOp {
		return SOp{Name: name, Do: func(w *SWorld, st *TState) (string, []uint64) { return ec(f(w.C(st.T))), nil }}
	}
	touch := mut("Touch k", func(c *rosmar.Collection) error { _, err := c.Touch("k", 30); return err })
	update := mut("Update k", func(c *rosmar.Collection) error {
		_, err := c.Update("k", 0, func(cur []byte) ([]byte, *uint32, bool, error) { return append(append([]byte(nil), cur...), 'u'), nil, false, nil })
		return err
	})
	setx := mut("SetXattrs k", func(c *rosmar.Collection) error {
		_, err := c.SetXattrs(ctx, "k", map[string][]byte{"_s": []byte(`{"a":1}`)})
		return err
	})
	subdoc := mut("WriteSubDoc k.a", func(c *rosmar.Collection) error {
		_, err := c.WriteSubDoc(ctx, "k", "a", 0, []byte(`1`))
		return err
	})
	incr := mut("Incr n", func(c *rosmar.Collection) error { _, err := c.Incr("n", 1, 1, 0); return err })
	_ = incr
	wux := mut("WriteUpdateWithXattrs k", func(c *rosmar.Collection) error {
		_, err := c.WriteUpdateWithXattrs(ctx, "k", []string{"_t"}, 0, nil, &sgbucket.MutateInOptions{}, func(doc []byte, x map[string][]byte, cas uint64) (sgbucket.UpdatedDoc, error) {
			return sgbucket.UpdatedDoc{Doc: doc, Xattrs: map[string][]byte{"_t": []byte(`{"b":2}`)}}, nil
		})
		return err
	})
	check := func(name string) func(w *SWorld, ops []OpRec, final string) []Violation {
		return func(w *SWorld, ops []OpRec, final string) []Violation {
			n := 1 // the setup write
			for _, o := range ops {
				if o.Out == "" {
					n++
				}
			}
			xs, _, err := w.A[0].GetXattrs(ctx, "k", []string{"$document.revid"})
			got := string(xs["$document.revid"])
			if err != nil || got != fmt.Sprintf(`"%d"`, n) {
				return []Violation{{Prop: "C17", Op: name, Pre: "sched", Field: "rev-count", Detail: fmt.Sprintf("%d successful mutations of k but $document.revid=%s (%v)", n, got, err)}}
			}
			return nil
		}
	}
	setupJSON := func(w *SWorld) { must(w.A[0].Set("k", 0, nil, []byte(`{"v":0}`))) }
	variants(Scenario{Name: "V-update-touch", Prop: []string{"C17"}, Setup: setupSet("k", "s"), Threads: [][]SOp{{update}, {touch}, {touch}}, Check: check("V-update-touch")}, 1, 2)
	variants(Scenario{Name: "V-subdoc-touch-setx", Prop: []string{"C17"}, Setup: setupJSON, Threads: [][]SOp{{subdoc}, {touch}, {setx}}, Check: check("V-subdoc-touch-setx")}, 1, 2)
	variants(Scenario{Name: "V-wux-touch-update", Prop: []string{"C17"}, Setup: setupJSON, Threads: [][]SOp{{wux}, {touch}, {update}}, Check: check("V-wux-touch-update")}, 1, 2)
}

// ---- C16(b): stopping feeds while a writer is active ----------------------------------------------------

func init() {
	startFeeds := func(w *SWorld) {
		must(w.A[0].SetRaw("d1", 0, nil, []byte("1")))
		fa, err := StartLiveFeed(w.A[0], "fa")
		must(err)
		bcoll := coll(w.H[len(w.H)-1], NameB)
		fb, err := StartLiveFeed(bcoll, "fb")
		must(err)
		w.Feeds = append(w.Feeds, fa, fb)
	}
	writeA := func(key string) SOp {
		return SOp{Name: "Update A/" + key, Do: func(w *SWorld, st *TState) (string, []uint64) {
			cas, err := w.C(st.T).Update(key, 0, func([]byte) ([]byte, *uint32, bool, error) { return []byte("w"), nil, false, nil })
			return fmt.Sprintf("%s «0»", ec(err)), []uint64{cas}
		}}
	}
	termAndWait := SOp{Name: "close terminator of fa, wait for done", Do: func(w *SWorld, st *TState) (string, []uint64) {
		w.Feeds[0].CloseTerm()
		vrt.Recv((<-chan struct{})(w.Feeds[0].Done))
		w.Feeds[0].DoneClosed()
		return "", nil
	}}
	dropB := SOp{Name: "DropDataStore(B)", Do: func(w *SWorld, st *TState) (string, []uint64) {
		return ec(w.H[len(w.H)-1].DropDataStore(NameB)), nil
	}}
	termB := SOp{Name: "close terminator of fb", Do: func(w *SWorld, st *TState) (string, []uint64) {
		w.Feeds[1].CloseTerm()
		return "", nil
	}}
	check := func(name string, faSurvives bool) func(w *SWorld, ops []OpRec, final string) []Violation {
		return func(w *SWorld, ops []OpRec, final string) []Violation {
			var vs []Violation
			for _, f := range w.Feeds {
				if f.AfterDone > 0 {
					vs = append(vs, Violation{Prop: "C16", Op: name, Pre: "sched", Field: "callback-after-done", Detail: fmt.Sprintf("feed %s: %d callbacks after its done channel had been seen closed", f.Name, f.AfterDone)})
				}
			}
			if faSurvives {
				var want []uint64
				for _, o := range ops {
					if strings.HasPrefix(o.Name, "Update A/") && len(o.Cas) > 0 && o.Cas[0] != 0 {
						want = append(want, o.Cas[0])
					}
				}
				sort.Slice(want, func(i, j int) bool { return want[i] < want[j] })
				var got []uint64
				for _, e := range feedEvents(w.Feeds[0], "") {
					got = append(got, e.Cas)
				}
				if fmt.Sprint(got) != fmt.Sprint(want) {
					vs = append(vs, Violation{Prop: "C16", Op: name, Pre: "sched", Field: "starved", Detail: fmt.Sprintf("the feed on A that should keep running received CAS %v for successful writes %v", got, want)})
				}
				if w.Feeds[0].DoneClosed() {
					vs = append(vs, Violation{Prop: "C16", Op: name, Pre: "sched", Field: "stopped", Detail: "the feed on A was stopped although only another collection's feed was ended"})
				}
			} else if !w.Feeds[0].DoneClosed() {
				vs = append(vs, Violation{Prop: "C16", Op: name, Pre: "sched", Field: "not-ended", Detail: "the feed's done channel is not closed after its terminator was closed"})
			}
			return vs
		}
	}
	variants(Scenario{Name: "T-term-vs-writer", Prop: []string{"C16"}, Setup: startFeeds, Keys: []string{"k", "j"},
		Threads: [][]SOp{{writeA("k"), writeA("j")}, {termAndWait}}, Check: check("T-term-vs-writer", false)}, 1, 2)
	variants(Scenario{Name: "T-dropB-vs-writer", Prop: []string{"C16"}, Setup: startFeeds, Keys: []string{"k", "j"},
		Threads: [][]SOp{{writeA("k"), writeA("j")}, {dropB}}, Check: check("T-dropB-vs-writer", true)}, 1, 2)
	variants(Scenario{Name: "T-termB-vs-writer", Prop: []string{"C16"}, Setup: startFeeds, Keys: []string{"k", "j"},
		Threads: [][]SOp{{writeA("k"), writeA("j")}, {termB}, {writeA("k")}}, Check: check("T-termB-vs-writer", true)}, 2)
}
