package h

import (
	"bufio"
	"encoding/json"
	"fmt"
	"io"
	"os"
	"os/exec"
	"sync"
	"time"
)

// Worker side -----------------------------------------------------------------------------------

type envelope struct {
	Kind string          `json:"kind"`
	Data json.RawMessage `json:"data"`
}

var handlers = map[string]func(json.RawMessage) (any, error){}

func RegisterHandler(kind string, f func(json.RawMessage) (any, error)) { handlers[kind] = f }

// WorkerMain serves jobs from stdin until EOF; one JSON document per line in both directions.
func WorkerMain() {
	in := bufio.NewReaderSize(os.Stdin, 1<<20)
	out := bufio.NewWriter(os.Stdout)
	defer CleanupScratch()
	for {
		line, err := in.ReadBytes('\n')
		if len(line) > 0 {
			var env envelope
			var resp struct {
				Data any    `json:"data"`
				Err  string `json:"err,omitempty"`
			}
			if e := json.Unmarshal(line, &env); e != nil {
				resp.Err = "bad job: " + e.Error()
			} else if h, ok := handlers[env.Kind]; !ok {
				resp.Err = "unknown job kind " + env.Kind
			} else {
				func() {
					defer func() {
						if r := recover(); r != nil {
							resp.Err = fmt.Sprintf("worker panic: %v", r)
						}
					}()
					d, e := h(env.Data)
					resp.Data = d
					if e != nil {
						resp.Err = e.Error()
					}
				}()
			}
			b, _ := json.Marshal(resp)
			out.Write(b)
			out.WriteByte('\n')
			out.Flush()
		}
		if err != nil {
			return
		}
	}
}

// Parent side -----------------------------------------------------------------------------------

type worker struct {
	cmd *exec.Cmd
	in  io.WriteCloser
	out *bufio.Reader
}

type Pool struct {
	Deadline time.Time // if set, Map stops handing out jobs after it
	n        int
	exe      string
	env      []string
	Restarts int
	mu       sync.Mutex
	idle     []*worker
}

func NewPool(n int) *Pool {
	exe, _ := os.Executable()
	return &Pool{n: n, exe: exe, env: append(os.Environ(), "GOMAXPROCS=2")}
}

func (p *Pool) start() (*worker, error) {
	p.mu.Lock()
	if k := len(p.idle); k > 0 {
		w := p.idle[k-1]
		p.idle = p.idle[:k-1]
		p.mu.Unlock()
		return w, nil
	}
	p.mu.Unlock()
	cmd := exec.Command(p.exe, "worker")
	cmd.Env = p.env
	cmd.Stderr = os.Stderr
	in, err := cmd.StdinPipe()
	if err != nil {
		return nil, err
	}
	outp, err := cmd.StdoutPipe()
	if err != nil {
		return nil, err
	}
	if err := cmd.Start(); err != nil {
		return nil, err
	}
	return &worker{cmd: cmd, in: in, out: bufio.NewReaderSize(outp, 1<<20)}, nil
}

func (p *Pool) release(w *worker) {
	p.mu.Lock()
	p.idle = append(p.idle, w)
	p.mu.Unlock()
}

// Close shuts the idle workers down.
func (p *Pool) Close() {
	p.mu.Lock()
	ws := p.idle
	p.idle = nil
	p.mu.Unlock()
	for _, w := range ws {
		_ = w.in.Close()
		done := make(chan struct{})
		go func(w *worker) { _ = w.cmd.Wait(); close(done) }(w)
		select {
		case <-done:
		case <-time.After(5 * time.Second):
			w.kill()
		}
	}
}

func (w *worker) kill() {
	_ = w.in.Close()
	_ = w.cmd.Process.Kill()
	_, _ = w.cmd.Process.Wait()
}

type JobOutcome struct {
	Index   int
	Data    json.RawMessage
	Err     string
	Timeout bool
}

// Map runs every job (kind, payload) on the pool and calls handle from a single goroutine, in completion order.
func (p *Pool) Map(kind string, jobs []any, timeout time.Duration, handle func(JobOutcome)) {
	type item struct {
		i   int
		job any
	}
	ch := make(chan item)
	res := make(chan JobOutcome)
	var wg sync.WaitGroup
	n := p.n
	if n > len(jobs) {
		n = len(jobs)
	}
	for k := 0; k < n; k++ {
		wg.Add(1)
		go func() {
			defer wg.Done()
			var w *worker
			defer func() {
				if w != nil {
					p.release(w)
				}
			}()
			for it := range ch {
				if w == nil {
					var err error
					if w, err = p.start(); err != nil {
						res <- JobOutcome{Index: it.i, Err: "cannot start worker: " + err.Error()}
						continue
					}
				}
				data, _ := json.Marshal(it.job)
				line, _ := json.Marshal(envelope{Kind: kind, Data: data})
				type reply struct {
					b   []byte
					err error
				}
				rc := make(chan reply, 1)
				ww := w
				go func() {
					if _, err := ww.in.Write(append(line, '\n')); err != nil {
						rc <- reply{nil, err}
						return
					}
					b, err := ww.out.ReadBytes('\n')
					rc <- reply{b, err}
				}()
				select {
				case r := <-rc:
					if r.err != nil {
						w.kill()
						w = nil
						p.mu.Lock()
						p.Restarts++
						p.mu.Unlock()
						res <- JobOutcome{Index: it.i, Err: "worker died: " + r.err.Error()}
						continue
					}
					var resp struct {
						Data json.RawMessage `json:"data"`
						Err  string          `json:"err"`
					}
					if e := json.Unmarshal(r.b, &resp); e != nil {
						res <- JobOutcome{Index: it.i, Err: "bad worker reply: " + e.Error()}
						continue
					}
					res <- JobOutcome{Index: it.i, Data: resp.Data, Err: resp.Err}
				case <-time.After(timeout):
					w.kill()
					w = nil
					p.mu.Lock()
					p.Restarts++
					p.mu.Unlock()
					res <- JobOutcome{Index: it.i, Err: "timeout", Timeout: true}
				}
			}
		}()
	}
	go func() {
		for i, j := range jobs {
			if !p.Deadline.IsZero() && time.Now().After(p.Deadline) {
				break // the check's internal deadline has passed: jobs not yet handed out are dropped (callers report exhaustive:false)
			}
			ch <- item{i, j}
		}
		close(ch)
		wg.Wait()
		close(res)
	}()
	for r := range res {
		handle(r)
	}
}
