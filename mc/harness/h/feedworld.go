package h

import (
	"fmt"
	"sort"
	"strings"

	sgbucket "github.com/couchbase/sg-bucket"
	"github.com/couchbaselabs/rosmar"
)

// FeedWorld: feed termination and independence (C16a). One bucket reached through two handles
// (h1 opens collections lazily, so the two handles know different collections), collections A and
// B, up to three feeds; every step is followed by a probe write through every open handle.

type fwFeed struct {
	rec    *FeedRec
	colls  []string // "A", "B"
	dump   bool
	ended  map[string]bool // per collection
	viaBkt bool
	seen   int
	hold   bool // dump whose callback blocks in its first document event until release
	endedWhileHeld bool
	endCause       string // what ended it first: terminator | drop | delete | close
}

func (f *fwFeed) allEnded() bool {
	for _, c := range f.colls {
		if !f.ended[c] {
			return false
		}
	}
	return true
}

type FeedWorld struct {
	cfg       Config
	h         []*rosmar.Bucket
	hState    []string // open | closed | dead
	feeds     []*fwFeed
	bDropped  bool
	recreated bool // B was dropped and created again at least once
	bStale    [3]bool // handle i has not looked B up since it was re-created through another handle
	closedColl [3]map[string]*rosmar.Collection // collection objects a handle had obtained before it was closed
	deleted   bool
	shutdown  bool // store shut down (deleted, or last on-disk handle closed)
	step      int
}

func init() {
	RegisterWorld("feeds", func(cfg Config) GenWorld {
		w := &FeedWorld{cfg: cfg}
		for i := 0; i < 3; i++ { // handle 2 never opens a collection: it only drops B or closes
			b, err := rosmar.OpenBucket(BucketURL(cfg, "b1"), "b1", rosmar.CreateOrOpen)
			must(err)
			w.h = append(w.h, b)
			w.hState = append(w.hState, "open")
		}
		// h0 creates both collections; h1 only ever opens what an operation needs
		a := coll(w.h[0], NameA)
		b := coll(w.h[0], NameB)
		for _, cl := range []*rosmar.Collection{a, b} {
			must(cl.SetRaw("d1", 0, nil, []byte("1")))
			must(cl.SetRaw("d2", 0, nil, []byte("2")))
		}
		_ = coll(w.h[1], NameB) // handle 1 has used B before (handle 2 is the one that never opens anything)
		return w
	})
}

func (w *FeedWorld) Bucket() *rosmar.Bucket { return w.h[0] }

func (w *FeedWorld) Alphabet(tier int) []string {
	var ops []string
	for _, h := range []string{"0", "1"} {
		for _, t := range []string{"A", "B", "AB", "bA"} {
			for _, m := range []string{"live", "dump"} {
				if tier == 0 && m == "dump" && (t == "bA" || t == "B") {
					continue
				}
				ops = append(ops, "start/"+h+"/"+t+"/"+m)
			}
		}
	}
	ops = append(ops, "start/0/A/hold", "start/1/AB/hold", "release/0", "release/1", "release/2")
	ops = append(ops, "term/0", "term/1", "term/2", "drop/0", "drop/1", "drop/2", "recreate/0", "recreate/1", "lookup/0", "lookup/1", "close/0", "close/1", "close/2", "delete/0", "delete/1")
	return ops
}

func nameOf(c string) sgbucket.DataStoreNameImpl {
	if c == "A" {
		return NameA
	}
	return NameB
}

func (w *FeedWorld) exists(c string) bool { return !w.shutdown && !(c == "B" && w.bDropped) }

func (w *FeedWorld) Apply(op string) (string, []Violation) {
	w.step++
	parts := strings.Split(op, "/")
	c := &checker{op: op, pre: "feeds"}
	result := "ok"
	switch parts[0] {
	case "start":
		var hi int
		fmt.Sscanf(parts[1], "%d", &hi)
		if w.hState[hi] == "closed" && parts[3] == "live" && parts[2] != "AB" {
			// through a closed handle (whether or not the store is still up): refused, nothing starts
			f := NewFeedRec("closedstart")
			var err error
			if parts[2] == "bA" {
				err = w.h[hi].StartDCPFeed(ctx, sgbucket.FeedArguments{ID: f.Name, Backfill: sgbucket.FeedNoBackfill, Terminator: f.Term, DoneChan: f.Done, Scopes: map[string][]string{"sc": {"A"}}}, f.callback, nil)
			} else if cl := w.closedColl[hi][parts[2]]; cl != nil {
				err = cl.StartDCPFeed(ctx, sgbucket.FeedArguments{ID: f.Name, Backfill: sgbucket.FeedNoBackfill, Terminator: f.Term, DoneChan: f.Done}, f.callback, nil)
			} else {
				return "skip", nil
			}
			if err == nil {
				c.add("C13", "closed-handle-call", "StartDCPFeed (%s) through a closed handle returned nil", parts[2])
				f.CloseTerm()
			}
			w.probe(c)
			return "refused", c.out
		}
		if len(w.feeds) >= 3 || w.hState[hi] != "open" || w.shutdown {
			return "skip", nil
		}
		target, dump := parts[2], parts[3] == "dump" || parts[3] == "hold"
		var colls []string
		switch target {
		case "A", "bA":
			colls = []string{"A"}
		case "B":
			colls = []string{"B"}
		case "AB":
			colls = []string{"A", "B"}
		}
		for _, cn := range colls {
			if !w.exists(cn) {
				return "skip", nil
			}
		}
		for _, cn := range colls {
			if cn == "B" {
				w.bStale[hi] = false
			}
		}
		f := &fwFeed{rec: NewFeedRec(fmt.Sprintf("f%d", len(w.feeds))), colls: colls, dump: dump, ended: map[string]bool{}, viaBkt: target == "AB" || target == "bA"}
		args := sgbucket.FeedArguments{ID: f.rec.Name, Backfill: sgbucket.FeedNoBackfill, Dump: dump, Terminator: f.rec.Term, DoneChan: f.rec.Done}
		if dump {
			args.Backfill = 0
		}
		if parts[3] == "hold" {
			f.hold = true
			f.rec.Hold = make(chan struct{})
		}
		var err error
		if f.viaBkt {
			args.Scopes = map[string][]string{"sc": colls}
			err = w.h[hi].StartDCPFeed(ctx, args, f.rec.callback, nil)
		} else {
			err = coll(w.h[hi], nameOf(colls[0])).StartDCPFeed(ctx, args, f.rec.callback, nil)
		}
		if err != nil {
			c.add("C16", "start", "StartDCPFeed failed: %v", err)
			result = "err"
			break
		}
		if dump && !f.hold {
			for _, cn := range colls {
				f.ended[cn] = true
			}
		}
		w.feeds = append(w.feeds, f)
	case "release":
		var i int
		fmt.Sscanf(parts[1], "%d", &i)
		if i >= len(w.feeds) || !w.feeds[i].hold || !w.feeds[i].rec.Holding {
			return "skip", nil
		}
		f := w.feeds[i]
		quiesce()
		before := len(f.rec.Events)
		f.endedWhileHeld = f.allEnded()
		f.rec.Release()
		quiesce()
		after := len(f.rec.Events) - before
		if f.endedWhileHeld && after > 0 {
			c.add("C16", "callback-after-end:"+f.endCause, "dump feed %d had been ended by %s while its callback was still running; after that callback returned it was invoked %d more times: %v", i, f.endCause, after, f.rec.Events[before:])
		}
		for _, cn := range f.colls { // a dump ends when it has delivered everything
			f.ended[cn] = true
		}
	case "term":
		var i int
		fmt.Sscanf(parts[1], "%d", &i)
		if i >= len(w.feeds) || w.feeds[i].rec.TermClosed {
			return "skip", nil
		}
		f := w.feeds[i]
		f.rec.CloseTerm()
		for _, cn := range f.colls {
			f.ended[cn] = true
		}
		if f.endCause == "" {
			f.endCause = "terminator"
		}
	case "drop":
		var hi int
		fmt.Sscanf(parts[1], "%d", &hi)
		if !w.bDropped && w.hState[hi] == "closed" && !w.shutdown {
			// through a closed handle: refused, and nothing of the collection (its feeds) is touched
			if err := w.h[hi].DropDataStore(NameB); err == nil {
				c.add("C13", "closed-handle-call", "DropDataStore through a closed handle returned nil")
			}
			w.probe(c)
			return "refused", c.out
		}
		if w.bDropped || w.hState[hi] != "open" || w.shutdown {
			return "skip", nil
		}
		if err := w.h[hi].DropDataStore(NameB); err != nil {
			c.add("C16", "drop", "DropDataStore failed: %v", err)
		}
		w.bDropped = true
		for _, f := range w.feeds {
			for _, cn := range f.colls {
				if cn == "B" {
					f.ended[cn] = true
					if f.endCause == "" && f.allEnded() {
						f.endCause = "drop"
					}
				}
			}
		}
	case "recreate":
		var hi int
		fmt.Sscanf(parts[1], "%d", &hi)
		if !w.bDropped || w.hState[hi] != "open" || w.shutdown {
			return "skip", nil
		}
		if _, err := w.h[hi].NamedDataStore(NameB); err != nil {
			c.add("C11", "recreate", "re-creating the dropped collection failed: %v", err)
			break
		}
		w.bDropped, w.recreated = false, true
		w.bStale = [3]bool{true, true, true}
		w.bStale[hi] = false
	case "lookup":
		// a handle that had B cached before it was dropped looks it up again (an operation of its own: the
		// probe below does not do it, so that a stale cache can live until something depends on it)
		var hi int
		fmt.Sscanf(parts[1], "%d", &hi)
		if w.bDropped || !w.bStale[hi] || w.hState[hi] != "open" || w.shutdown {
			return "skip", nil
		}
		if _, err := w.h[hi].NamedDataStore(NameB); err != nil {
			c.add("C11", "lookup", "looking the re-created collection up through another open handle failed: %v", err)
		}
		w.bStale[hi] = false
	case "close":
		var hi int
		fmt.Sscanf(parts[1], "%d", &hi)
		if w.hState[hi] != "open" {
			return "skip", nil
		}
		if hi < 2 {
			w.closedColl[hi] = map[string]*rosmar.Collection{"A": coll(w.h[hi], NameA)}
			if w.exists("B") && !w.bStale[hi] {
				w.closedColl[hi]["B"] = coll(w.h[hi], NameB)
			}
		}
		w.h[hi].Close(ctx)
		w.hState[hi] = "closed"
		if w.cfg.Disk && w.hState[0] != "open" && w.hState[1] != "open" && w.hState[2] != "open" && !w.shutdown {
			w.shutdown = true
			w.endAll("close")
		}
	case "delete":
		var hi int
		fmt.Sscanf(parts[1], "%d", &hi)
		if w.deleted || w.shutdown {
			return "skip", nil
		}
		if err := w.h[hi].CloseAndDelete(ctx); err != nil {
			c.add("C16", "delete", "CloseAndDelete failed: %v", err)
		}
		w.deleted, w.shutdown = true, true
		for i := range w.hState {
			w.hState[i] = "dead"
		}
		w.endAll("delete")
	}
	w.probe(c)
	return result, c.out
}

func (w *FeedWorld) endAll(cause string) {
	for _, f := range w.feeds {
		for _, cn := range f.colls {
			f.ended[cn] = true
		}
		if f.endCause == "" {
			f.endCause = cause
		}
	}
}

// probe: done channels, silence of ended feeds, and delivery of a write made through every open handle.
func (w *FeedWorld) probe(c *checker) {
	quiesce()
	for _, f := range w.feeds {
		f.seen = len(f.rec.Events)
	}
	check := func(when string) {
		for i, f := range w.feeds {
			done := f.rec.DoneClosed()
			if f.rec.Holding {
				if done {
					c.add("C16", "done", "feed %d: done channel closed while its callback is still running", i)
				}
				continue
			}
			if done != f.allEnded() {
				c.add("C16", "done", "feed %d (%v, dump=%v, via bucket API=%v) %s: done channel closed=%v, but it should be %v (ended collections %v)", i, f.colls, f.dump, f.viaBkt, when, done, f.allEnded(), f.ended)
			}
			if f.rec.AfterDone > 0 {
				c.add("C16", "callback-after-done", "feed %d received %d callbacks after its done channel closed", i, f.rec.AfterDone)
			}
		}
	}
	check("after the operation")
	for hi, h := range w.h {
		if w.hState[hi] != "open" || w.shutdown || hi == 2 {
			continue
		}
		for _, cn := range []string{"A", "B"} {
			if !w.exists(cn) || (cn == "B" && w.bStale[hi]) {
				continue
			}
			key := fmt.Sprintf("p%d", hi)
			err := coll(h, nameOf(cn)).SetRaw(key, 0, nil, []byte(fmt.Sprintf("%d", w.step)))
			if err != nil {
				c.add("C16", "probe.write", "write to %s through open handle %d failed: %v", cn, hi, err)
				if cn == "B" && w.recreated {
					c.add("C11", "recreated.write", "B was dropped and created again, but a write to it through open handle %d fails: %v", hi, err)
				}
				continue
			}
			quiesce()
			for i, f := range w.feeds {
				got := f.rec.Events[f.seen:]
				f.seen = len(f.rec.Events)
				covers := false
				for _, fc := range f.colls {
					if fc == cn {
						covers = true
					}
				}
				want := 0
				if covers && !f.ended[cn] && !f.dump {
					want = 1
				}
				if f.rec.Holding {
					want = 0
				}
				if len(got) != want {
					c.add("C16", ifs(want == 1, "starved", "not-silent"), "feed %d (%v, via handle API=%v) received %d events for a write to %s through handle %d, want %d: %v", i, f.colls, f.viaBkt, len(got), cn, hi, want, got)
				} else if want == 1 && (got[0].Key != key) {
					c.add("C16", "probe.event", "feed %d received %v for the probe write of %s", i, got[0], key)
				}
			}
		}
	}
	check("after the probe writes")
}

func (w *FeedWorld) Canon() string {
	var b strings.Builder
	fmt.Fprintf(&b, "h=%v drop=%v/%v/%v shut=%v|", w.hState, w.bDropped, w.recreated, w.bStale, w.shutdown)
	for _, f := range w.feeds {
		var e []string
		for _, cn := range f.colls {
			e = append(e, fmt.Sprintf("%s:%v", cn, f.ended[cn]))
		}
		sort.Strings(e)
		fmt.Fprintf(&b, "%v/%v/%v/%v/%v/%v;", e, f.dump, f.viaBkt, f.rec.TermClosed, f.hold, f.rec.Holding)
	}
	fmt.Fprintf(&b, "|impl:%v %v %v", rosmar.VerifFeedCounts(w.h[0]), rosmar.VerifHandleFeedMapNil(w.h[0]), rosmar.VerifHandleFeedMapNil(w.h[1]))
	if w.recreated && !w.shutdown {
		for hi := 0; hi < 2; hi++ {
			if w.hState[hi] == "open" {
				fmt.Fprintf(&b, " cache%d=%s", hi, CacheState(w.h[hi]))
			}
		}
	}
	return b.String()
}

func (w *FeedWorld) Close() {
	for _, f := range w.feeds {
		f.rec.CloseTerm()
		f.rec.Release()
	}
	quiesce()
	_ = w.h[0].CloseAndDelete(ctx)
	quiesce()
}
