package h

import (
	"encoding/json"
	"fmt"
	"os"
	"path/filepath"
	"strconv"
	"strings"
	"time"
)

var kvProps = map[string]bool{"ALL": true, "C01": true, "C05": true, "C06": true, "C07": true, "C17": true, "C02": true, "C08": true, "C09": true, "C18": true, "C11": true, "C14": true}

// schedPlans: scenario-name prefixes per property.
var schedPlans = map[string][]string{
	"C02": {"R-", "L-"},
	"C03": {"S1-", "S2-", "S3-", "S4-", "S5-", "S6-", "S7-", "S8-", "S9-", "S10-", "S11-", "S12-", "L-wux", "L-update", "L-incr", "L-writesubdoc", "L-subdocinsert"},
	"C08": {"F-"},
	"C09": {"B-"},
	"C15": {"K-"},
	"C18": {"S6-", "L-subdoc", "L-writesubdoc"},
	"C12": {"W-"},
	"C07": {"S12-wux"},
	"C14": {"E-"},
	"C20": {"X-", "O-open2-pending"},
	"C13": {"O-", "X-Close-vs-Close-same-handle"},
	"C04": {"H-"},
	"C17": {"V-"},
	"C16": {"T-", "O-lastclose", "B-two-starts"},
}

// matrixProps: properties that also run the pairwise matrix (scenarios5.go: every unordered pair of a pool
// of 29 operations on one key, in memory with one handle and on disk with two) at a deviation bound one
// lower than the focused scenarios.
var matrixProps = map[string]func(name string) bool{
	"C03": func(string) bool { return true }, "C08": func(string) bool { return true }, "C09": func(string) bool { return true },
	"C17": func(string) bool { return true }, "C20": func(string) bool { return true },
	// the pairs with a CAS-carrying write / a sub-document operation in them
	"C02": func(n string) bool { return strings.Contains(n, "(read cas)") },
	"C18": func(n string) bool { return strings.Contains(n, "ubDoc") || strings.Contains(n, "ubdoc") },
}

type genPlan struct {
	kind                      string
	cfg                       Config
	quickDepth, thoroughDepth int
	thoroughOnly              bool
}

var genPlans = map[string][]genPlan{
	"C04": {{kind: "clock", quickDepth: 3, thoroughDepth: 4}, {kind: "clock", cfg: Config{Disk: true}, quickDepth: 3, thoroughDepth: 4}},
	"C11": {{kind: "isolation", quickDepth: 3, thoroughDepth: 4}, {kind: "isolation", cfg: Config{Disk: true}, quickDepth: 2, thoroughDepth: 3},
		{kind: "views", quickDepth: 4, thoroughDepth: 4}},
	"C12": {{kind: "views", quickDepth: 4, thoroughDepth: 4}, {kind: "views", cfg: Config{Disk: true}, quickDepth: 2, thoroughDepth: 3}},
	"C13": {{kind: "registry", quickDepth: 4, thoroughDepth: 6}},
	"C20": {{kind: "views", quickDepth: 2, thoroughDepth: 3}},
	"C19": {{kind: "queries", quickDepth: 3, thoroughDepth: 4}, {kind: "queries", cfg: Config{Disk: true}, quickDepth: 3, thoroughDepth: 4}},
	"C14": {{kind: "expiry", quickDepth: 4, thoroughDepth: 5}, {kind: "expiry", cfg: Config{Disk: true}, quickDepth: 3, thoroughDepth: 4}},
	"C16": {{kind: "feeds", cfg: Config{Disk: true}, quickDepth: 4, thoroughDepth: 5}, {kind: "feeds", quickDepth: 4, thoroughDepth: 5}},
	"C15": {{kind: "checkpoint", quickDepth: 4, thoroughDepth: 6}, {kind: "checkpoint", cfg: Config{Disk: true}, quickDepth: 4, thoroughDepth: 5}},
}

const (
	ruleSeq   = "explicit-state BFS over operation sequences of the real implementation: every alphabet operation applied in every canonical state reached within the depth bound; a case is one (state, operation) transition, distinct by canonical pre-state x operation"
	ruleSched = "stateless DFS over thread interleavings of the real implementation under a controlled scheduler: every schedule of each closed scenario with at most <bound> deviations from the default (run-to-block, lowest thread id) schedule; a case is one complete execution, distinct by its choice list; states = distinct observable outcomes"
)

// RunCheck decides one property at one tier and returns the process exit code.
func RunCheck(prop, tier string, procs int, budget time.Duration) int {
	rep := NewReport(prop, tier)
	pool := NewPool(procs)
	defer pool.Close()
	quick := tier != "thorough"
	if budget == 0 {
		budget = 10 * time.Minute
		if !quick {
			budget = 45 * time.Minute
		}
	}
	deadline := time.Now().Add(budget)
	pool.Deadline = deadline.Add(30 * time.Second)
	rep.Assumptions = []string{"SQLite, database/sql, Go runtime, otto trusted", "fixed small alphabets of keys, bodies, xattr names, expiries, CAS tokens", "scheduling points at synchronisation operations only (mutex, cond, channel receive, goroutine start/exit, timer release); execution inside one SQLite call is atomic"}
	known := false
	if strings.HasPrefix(prop, "sched:") {
		// developer entry: sched:<scenario>:<bound>
		parts := strings.Split(prop, ":")
		b, _ := strconv.Atoi(parts[2])
		rep.Prop = "ALL"
		rep.Rule = ruleSched
		RunSched(rep, pool, parts[1], b, deadline)
		return rep.Finish()
	}
	if strings.HasPrefix(prop, "schedmany:") {
		// developer entry: schedmany:<prefix>:<bound>
		parts := strings.Split(prop, ":")
		b, _ := strconv.Atoi(parts[2])
		rep.Prop = "ALL"
		rep.Rule = ruleSched
		RunSchedMany(rep, pool, ScenarioNames(parts[1]), b, deadline)
		return rep.Finish()
	}
	if strings.HasPrefix(prop, "kv:") {
		// developer entry: kv:<depth>:<tier>[:disk]
		parts := strings.Split(prop, ":")
		d, _ := strconv.Atoi(parts[1])
		tr, _ := strconv.Atoi(parts[2])
		rep.Prop = "ALL"
		rep.Rule = ruleSeq
		RunKVBFS(rep, pool, Config{Disk: len(parts) > 3, Witness: true, TwoHandles: true, MaxDocSize: 300}, d, tr, deadline)
		return rep.Finish()
	}
	if kvProps[prop] {
		known = true
		rep.Rule = ruleSeq
		rep.Assumptions = append(rep.Assumptions, "canonical state drops revSeqNo magnitude and absolute CAS values (DESIGN 2.3)")
		kvBudget := deadline
		if schedPlans[prop] != nil {
			kvBudget = time.Now().Add(budget / 2)
		}
		if quick {
			RunKVBFS(rep, pool, Config{Witness: true, TwoHandles: true, MaxDocSize: 300}, 3, 0, kvBudget)
			RunKVBFS(rep, pool, Config{Disk: true, Witness: true, TwoHandles: true, MaxDocSize: 300}, 2, 0, kvBudget)
		} else {
			RunKVBFS(rep, pool, Config{Witness: true, TwoHandles: true, MaxDocSize: 300}, 4, 1, kvBudget)
			RunKVBFS(rep, pool, Config{Disk: true, Witness: true, TwoHandles: true, MaxDocSize: 300}, 3, 1, deadline)
		}
	}
	if prop == "C13" {
		RunOpenFailureScript(rep)
		// "an on-disk bucket's data is intact when reopened after its last handle closed": the on-disk KV BFS,
		// whose every transition ends with the reopen differential (kvworld.go)
		known = true
		rep.Rule = ruleSeq
		if quick {
			RunKVBFS(rep, pool, Config{Disk: true, Witness: true, TwoHandles: true, MaxDocSize: 300}, 2, 0, time.Now().Add(budget/2))
		} else {
			RunKVBFS(rep, pool, Config{Disk: true, Witness: true, TwoHandles: true, MaxDocSize: 300}, 3, 1, time.Now().Add(budget/2))
		}
	}
	if prefixes := schedPlans[prop]; prefixes != nil {
		known = true
		if rep.Rule != "" {
			rep.Rule += "; plus: " + ruleSched
		} else {
			rep.Rule = ruleSched
		}
		bound := 2
		if !quick {
			bound = 3
		}
		RunSchedMany(rep, pool, ScenarioNamesTier(quick, prefixes...), bound, deadline)
		if sel := matrixProps[prop]; sel != nil {
			var names []string
			for _, n := range ScenarioNamesTier(quick, "P-") {
				if sel(n) {
					names = append(names, n)
				}
			}
			RunSchedManyKey(rep, pool, names, bound-1, deadline, "sched_pairwise_matrix")
		}
	}
	if prop == "C04" {
		known = true
		RunClockScripts(rep, ifi(quick, 6, 7))
	}
	if gp, ok := genPlans[prop]; ok {
		known = true
		if rep.Rule == "" {
			rep.Rule = ruleSeq
		}
		for _, g := range gp {
			d := g.quickDepth
			tierN := 0
			if !quick {
				d, tierN = g.thoroughDepth, 1
			}
			if g.thoroughOnly && quick {
				continue
			}
			RunGenBFS(rep, pool, g.kind, g.cfg, d, tierN, deadline)
		}
	}
	if prop == "C10" {
		known = true
		rep.Rule = "exhaustive crash-point enumeration on the real implementation: a child process runs a write history on an on-disk bucket and is killed (SIGKILL) on entry to the N-th write-class system call (pwrite/write/ftruncate/fsync/fdatasync/unlink/rename under the bucket directory), for every N; a fresh process reopens the directory and its complete contents are compared with the states recorded after each acknowledged call; a case is one crash point"
		rep.Assumptions = append(rep.Assumptions, "process-kill model (no power loss: data written before the kill reaches the file system)", "single-threaded histories so that system call N is the same operation in every run (checked: a divergent acknowledgement count is reported)")
		hs := []string{"H1-kv", "H2-xattrs", "H3-multistep", "H4-collections-views", "H5-close-reopen"}
		for _, hname := range hs {
			RunCrash(rep, hname, procs, deadline)
		}
	}
	if out := os.Getenv("VERIF_RACEPASS_OUT"); out != "" {
		// auxiliary, non-deciding: what the free-running -race pass of the scenario bodies printed
		summary, _ := os.ReadFile(out)
		logs, _ := filepath.Glob(os.Getenv("VERIF_RACEPASS_LOGS") + "*")
		races := 0
		frames := map[string]int{}
		for _, l := range logs {
			b, _ := os.ReadFile(l)
			races += strings.Count(string(b), "WARNING: DATA RACE")
			for _, line := range strings.Split(string(b), "\n") {
				line = strings.TrimSpace(line)
				if strings.HasPrefix(line, "github.com/couchbaselabs/rosmar.") {
					frames[strings.SplitN(line, "(", 2)[0]]++
				}
			}
		}
		last := strings.TrimSpace(string(summary))
		if i := strings.LastIndex(last, "\n"); i >= 0 {
			last = last[i+1:]
		}
		rep.Extra["race_pass_diagnostic"] = map[string]any{"what": "free-running -race executions of the scenario bodies (sampling; never a verdict)", "summary": last, "data_races_reported": races, "rosmar_frames": frames}
		if races > 0 {
			fmt.Printf("DIAGNOSTIC: the auxiliary -race pass reported %d data races (frames: %v); scheduling points at synchronisation operations may not be sufficient there\n", races, frames)
		}
	}
	if !known {
		fmt.Printf("no check registered for %s\n", prop)
		return 2
	}
	return rep.Finish()
}

// Replay re-executes a recorded witness and reports whether the violation recurs.
func Replay(w Witness) int {
	var kind struct {
		Kind string `json:"kind"`
	}
	_ = json.Unmarshal(w.Replay, &kind)
	switch kind.Kind {
	case "script":
		// the one scripted execution of C13 (open-while-locked): run it again and report what it reports
		rep := NewReport(w.Prop, "replay")
		RunOpenFailureScript(rep)
		for sig, wit := range rep.Witnesses {
			fmt.Printf("  [%s] %s\n", sig, wit.Detail)
		}
		if rep.Witnesses[w.Sig] != nil {
			fmt.Println("REPRODUCED")
			return 1
		}
		fmt.Println("not reproduced")
		return 0
	case "kv":
		var rp KVReplay
		_ = json.Unmarshal(w.Replay, &rp)
		recurs := 0
		for i := 0; i < 3; i++ {
			res := ExpandKV(KVJob{Cfg: rp.Cfg, Path: rp.Path, Tier: 1, Only: []string{rp.Op}, Full: i == 0, ExtraBackfills: w.Prop == "C09"})
			if res.Err != "" {
				fmt.Println("replay error:", res.Err)
				return 2
			}
			for _, tr := range res.Trans {
				if i == 0 {
					fmt.Printf("path %v + %s -> %s %s\n", rp.Path, tr.Op, tr.Result, tr.Abnormal)
					if tr.Pre != nil {
						fmt.Printf("  pre : %s\n  post: %s\n", rowString(tr.Pre.Rows["sc.A/k"]), rowString(tr.Post.Rows["sc.A/k"]))
						fmt.Printf("  events: %v\n", tr.Post.Events)
					}
				}
				for _, v := range tr.Violations {
					if i == 0 {
						fmt.Printf("  [%s] %s\n", v.Sig(), v.Detail)
					}
					if v.Sig() == w.Sig {
						recurs++
					}
				}
			}
		}
		if recurs == 3 {
			fmt.Printf("VIOLATION property=%s reproduced 3/3\n", w.Prop)
			return 1
		}
		fmt.Printf("violation %s reproduced %d/3\n", w.Sig, recurs)
		if recurs == 0 {
			return 0
		}
		return 2
	}
	if kind.Kind == "sched" {
		return ReplaySched(w)
	}
	if kind.Kind == "gen" {
		return ReplayGen(w)
	}
	if kind.Kind == "crash" {
		return ReplayCrash(w)
	}
	fmt.Println("unknown replay kind", kind.Kind)
	return 2
}
