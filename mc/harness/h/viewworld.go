package h

import (
	"encoding/json"
	"fmt"
	"sort"
	"strings"

	sgbucket "github.com/couchbase/sg-bucket"
	"github.com/couchbaselabs/rosmar"
	"github.com/couchbaselabs/rosmar/vrt"
)

// ViewWorld: a non-stale view query equals the map function applied to the current documents
// (C12). Two handles on one bucket; keys k, j; three map functions evaluated independently in Go
// over a read-back of the rows; every query is also compared with a freshly created identical view.

var viewDefs = map[string]string{
	"v1": `function(doc, meta) { if (doc.v !== undefined) { emit(doc.v, meta.id); } }`,
	"v2": `function(doc, meta) { emit([meta.id, doc.t || null], 1); }`,
	"v3": `function(doc, meta) { if (meta.xattrs && meta.xattrs._s) { emit(meta.xattrs._s.n, null); } }`,
}

const v1Changed = `function(doc, meta) { if (doc.v !== undefined) { emit([doc.v], "changed"); } }`

type vrow struct {
	id    string
	key   any
	value any
}

// goMap evaluates view `name` (with the given variant of v1) for one stored row.
func goMap(name string, v1changed bool, r rosmar.VerifDocRow) []vrow {
	// "every document that has a body or xattrs": an xattrs column holding `null` or `{}` is no xattr at all
	if !r.HasValue {
		var xs map[string]any
		if r.Xattrs == nil || json.Unmarshal(r.Xattrs, &xs) != nil || len(xs) == 0 {
			return nil
		}
	}
	var doc any = map[string]any{}
	if r.IsJSON && r.HasValue {
		var parsed any
		if json.Unmarshal(r.Value, &parsed) == nil {
			doc = parsed
		}
	}
	obj, _ := doc.(map[string]any)
	var xattrs map[string]any
	if r.Xattrs != nil {
		_ = json.Unmarshal(r.Xattrs, &xattrs)
	}
	switch name {
	case "v1", "v1c":
		if obj == nil {
			return nil
		}
		v, ok := obj["v"]
		if !ok {
			return nil
		}
		if v1changed {
			return []vrow{{r.Key, []any{v}, "changed"}}
		}
		return []vrow{{r.Key, v, r.Key}}
	case "v2":
		var t any
		if obj != nil {
			if tv, ok := obj["t"]; ok && tv != nil && tv != false && tv != "" && tv != float64(0) {
				t = tv
			}
		}
		return []vrow{{r.Key, []any{r.Key, t}, float64(1)}}
	case "v3":
		s, ok := xattrs["_s"].(map[string]any)
		if !ok {
			return nil
		}
		return []vrow{{r.Key, s["n"], nil}}
	}
	return nil
}

type ViewWorld struct {
	cfg       Config
	h         []*rosmar.Bucket
	a         []*rosmar.Collection
	views     map[string]bool // views currently in the design document
	v1changed bool
	ddocPuts  [2]int // design-document puts by each handle since the other handle last changed it (capped): what a per-handle cache could know
	dropped   bool
	step      int
}

func init() {
	RegisterWorld("views", func(cfg Config) GenWorld {
		w := &ViewWorld{cfg: cfg, views: map[string]bool{}}
		for i := 0; i < 2; i++ {
			b, err := rosmar.OpenBucket(BucketURL(cfg, "b1"), "b1", rosmar.CreateOrOpen)
			must(err)
			w.h = append(w.h, b)
			w.a = append(w.a, coll(b, NameA))
		}
		w.putDDoc(0, false, true)
		return w
	})
}

func (w *ViewWorld) Bucket() *rosmar.Bucket { return w.h[0] }

func (w *ViewWorld) ddoc(changed, withV2 bool) *sgbucket.DesignDoc {
	vm := sgbucket.ViewMap{}
	v1 := viewDefs["v1"]
	if changed {
		v1 = v1Changed
	}
	vm["v1"] = sgbucket.ViewDef{Map: v1}
	vm["v1c"] = sgbucket.ViewDef{Map: v1, Reduce: "_count"}
	vm["v3"] = sgbucket.ViewDef{Map: viewDefs["v3"]}
	if withV2 {
		vm["v2"] = sgbucket.ViewDef{Map: viewDefs["v2"]}
	}
	return &sgbucket.DesignDoc{Language: "javascript", Views: vm} // the form GetDDoc returns, so that an unchanged put is recognised as one
}

func (w *ViewWorld) putDDoc(h int, changed, withV2 bool) error {
	err := w.a[h].PutDDoc(ctx, "dd", w.ddoc(changed, withV2))
	if err == nil {
		if changed != w.v1changed || withV2 != w.views["v2"] || len(w.views) == 0 {
			w.ddocPuts[1-h] = 0
		}
		if w.ddocPuts[h] < 2 {
			w.ddocPuts[h]++
		}
		w.v1changed = changed
		w.views = map[string]bool{"v1": true, "v1c": true, "v3": true}
		if withV2 {
			w.views["v2"] = true
		}
	}
	return err
}

func (w *ViewWorld) Alphabet(tier int) []string {
	ops := []string{"Set/k/1a", "Set/k/2", "Set/j/1", "Set/j/arr", "SetRaw/k", "Delete/k", "Delete/j", "SetXattrs/k", "SetXattrs/j", "RemoveXattrs/k", "WriteTombstone/k", "Add/k",
		"Purge", "SetWithMeta/k/above", "SetWithMeta/k/below", "SetWithMeta/k/last", "SetWithMeta/k/next", "B.Set", "DeleteWithMeta/j/above", "DeleteWithMeta/j/last", "PutDDoc/same", "PutDDoc/changed/h1", "PutDDoc/nov2", "Query", "QueryAll", "QueryStale", "DropRecreate"}
	if tier > 0 {
		ops = append(ops, "Incr/k", "WriteWithXattrs/j", "Touch/k")
	}
	return ops
}

func (w *ViewWorld) cas(key string) (cur, max, min uint64) {
	d, err := rosmar.VerifDumpAll(w.h[0])
	must(err)
	for _, r := range d.Docs {
		if r.Collection != "sc.A" {
			continue
		}
		if r.Key == key {
			cur = r.Cas
		}
		if r.Cas > max {
			max = r.Cas
		}
		if min == 0 || r.Cas < min {
			min = r.Cas
		}
	}
	if d.BucketLastCas > max {
		max = d.BucketLastCas
	}
	return
}

func (w *ViewWorld) lastCas() uint64 {
	d, err := rosmar.VerifDumpAll(w.h[0])
	must(err)
	for _, cl := range d.Collections {
		if cl.Name == "sc.A" {
			return cl.LastCas
		}
	}
	return 0
}

func (w *ViewWorld) Apply(op string) (string, []Violation) {
	w.step++
	c := &checker{op: op, pre: "views"}
	parts := strings.Split(op, "/")
	hnd := w.step % 2
	a := w.a[hnd]
	var err error
	switch parts[0] {
	case "B.Set":
		// a write addressed to ANOTHER collection of the same bucket
		err = coll(w.h[hnd], NameB).Set("k", 0, nil, []byte(`{"v":9,"t":"other"}`))
	case "Set":
		body := map[string]string{"1a": `{"v":1,"t":"a"}`, "2": `{"v":2}`, "1": `{"v":1}`, "arr": `{"v":[1,2],"t":"z"}`}[parts[2]]
		err = a.Set(parts[1], 0, nil, []byte(body))
	case "SetRaw":
		err = a.SetRaw("k", 0, nil, []byte("rawbytes"))
	case "Delete":
		err = a.Delete(parts[1])
	case "SetXattrs":
		_, err = a.SetXattrs(ctx, parts[1], map[string][]byte{"_s": []byte(fmt.Sprintf(`{"n":%d}`, 5+len(parts[1])+w.step%2))})
	case "WriteTombstone":
		cur, _, _ := w.cas("k")
		_, err = a.WriteTombstoneWithXattrs(ctx, "k", 0, cur, map[string][]byte{"_s": []byte(`{"n":9}`)}, nil, false, nil)
	case "Add":
		_, err = a.Add("k", 0, []byte(`{"v":3}`))
	case "Incr":
		_, err = a.Incr("k", 1, 1, 0)
	case "Touch":
		_, err = a.Touch("k", 30)
	case "RemoveXattrs":
		cur, _, _ := w.cas("k")
		err = a.RemoveXattrs(ctx, "k", []string{"_s"}, cur)
	case "WriteWithXattrs":
		cur, _, _ := w.cas("j")
		_, err = a.WriteWithXattrs(ctx, "j", 0, cur, []byte(`{"v":4,"t":"w"}`), map[string][]byte{"_s": []byte(`{"n":4}`)}, nil, nil)
	case "Purge":
		_, err = w.h[hnd].PurgeTombstones()
	case "SetWithMeta":
		cur, max, min := w.cas("k")
		nc := max + 0x10000
		if parts[2] == "below" {
			nc = min - 5
			if min < 10 {
				return "skip", nil
			}
		}
		if parts[2] == "last" {
			nc = w.lastCas() // exactly the CAS every up-to-date view is indexed to
			if nc == 0 {
				return "skip", nil
			}
		}
		if parts[2] == "next" {
			nc = w.lastCas() + 1 // just above this collection's newest CAS (possibly below another collection's)
		}
		err = a.SetWithMeta(ctx, "k", cur, nc, 0, []byte(`{"_s":{"n":7}}`), []byte(`{"v":7,"t":"m"}`), sgbucket.FeedDataTypeJSON)
	case "DeleteWithMeta":
		cur, max, _ := w.cas("j")
		nc := max + 0x10000
		if parts[2] == "last" {
			if nc = w.lastCas(); nc == 0 {
				return "skip", nil
			}
		}
		err = a.DeleteWithMeta(ctx, "j", cur, nc, 0, []byte(`{"_s":{"n":8}}`))
	case "PutDDoc":
		switch parts[1] {
		case "same":
			err = w.putDDoc(hnd, w.v1changed, w.views["v2"])
		case "changed":
			err = w.putDDoc(1, !w.v1changed, w.views["v2"])
		case "nov2":
			err = w.putDDoc(hnd, w.v1changed, !w.views["v2"])
		}
	case "Query":
		_, err = a.View(ctx, "dd", "v1", nil)
	case "QueryAll":
		for n := range w.views {
			if _, err = a.View(ctx, "dd", n, nil); err != nil {
				break
			}
		}
	case "QueryStale":
		_, err = a.View(ctx, "dd", "v1", map[string]any{"stale": "ok"})
	case "DropRecreate":
		if err = w.h[hnd].DropDataStore(NameA); err == nil {
			for i := range w.a {
				// both handles have to look the collection up again
				w.a[i] = nil
			}
			w.a[hnd] = coll(w.h[hnd], NameA)
			// the other handle had the dropped collection cached: it must reach the new one all the same
			w.a[1-hnd] = coll(w.h[1-hnd], NameA)
			err = w.putDDoc(hnd, false, true)
		}
	}
	vrt.Quiesce()
	result := "ok"
	if err != nil {
		result = "err:" + ErrClass(err)
	}
	return result, c.out
}

// PostCheck compares every view with the Go evaluation and with a fresh view (see gen.PostChecker).
func (w *ViewWorld) PostCheck(op string) []Violation {
	c := &checker{op: op, pre: "views"}
	w.checkViews(c)
	return c.out
}

type paramSet struct {
	name   string
	params map[string]any
	filter func(rows []vrow) []vrow
}

var collator sgbucket.JSONCollator

func cmpKeys(a, b any) int { return collator.Collate(a, b) }

func viewParamSets() []paramSet {
	return []paramSet{
		{"all", nil, func(r []vrow) []vrow { return r }},
		{"key=1", map[string]any{"key": 1}, func(r []vrow) []vrow {
			var out []vrow
			for _, x := range r {
				if cmpKeys(x.key, float64(1)) == 0 {
					out = append(out, x)
				}
			}
			return out
		}},
		{"range[1,2]", map[string]any{"startkey": 1, "endkey": 2}, func(r []vrow) []vrow {
			var out []vrow
			for _, x := range r {
				if cmpKeys(x.key, float64(1)) >= 0 && cmpKeys(x.key, float64(2)) <= 0 {
					out = append(out, x)
				}
			}
			return out
		}},
		{"range[1,2)", map[string]any{"startkey": 1, "endkey": 2, "inclusive_end": false}, func(r []vrow) []vrow {
			var out []vrow
			for _, x := range r {
				if cmpKeys(x.key, float64(1)) >= 0 && cmpKeys(x.key, float64(2)) < 0 {
					out = append(out, x)
				}
			}
			return out
		}},
		{"limit=1", map[string]any{"limit": 1}, func(r []vrow) []vrow {
			if len(r) > 1 {
				return r[:1]
			}
			return r
		}},
		// one key given as a key list, with a limit. (Several keys, or a key list without a limit, go through
		// sg-bucket's FilterKeys, which keeps one row per key: a dependency's choice, not judged here.)
		{"keys=[2],limit=1", map[string]any{"keys": []any{2}, "limit": 1}, func(r []vrow) []vrow { return firstN(keysOf(r, 2), 1) }},
		{"descending", map[string]any{"descending": true}, func(r []vrow) []vrow {
			out := append([]vrow(nil), r...)
			for i, j := 0, len(out)-1; i < j; i, j = i+1, j-1 {
				out[i], out[j] = out[j], out[i]
			}
			return out
		}},
	}
}

// keysOf: the rows whose key equals one of the given (ascending) keys, in view order.
func keysOf(r []vrow, keys ...float64) []vrow {
	var out []vrow
	for _, k := range keys {
		for _, x := range r {
			if cmpKeys(x.key, k) == 0 {
				out = append(out, x)
			}
		}
	}
	return out
}

func firstN(r []vrow, n int) []vrow {
	if len(r) > n {
		return r[:n]
	}
	return r
}

func rowsString(rows []vrow) string {
	var out []string
	for _, r := range rows {
		k, _ := json.Marshal(r.key)
		v, _ := json.Marshal(r.value)
		out = append(out, fmt.Sprintf("%s:%s=%s", r.id, k, v))
	}
	return fmt.Sprintf("%d%v", len(rows), out)
}

func (w *ViewWorld) checkViews(c *checker) {
	d, err := rosmar.VerifDumpAll(w.h[0])
	must(err)
	hnd := (w.step + 1) % 2
	a := w.a[hnd]
	// a freshly created identical design document, for the incremental-vs-fresh comparison
	freshErr := w.a[w.step%2].PutDDoc(ctx, "fresh", w.ddoc(w.v1changed, w.views["v2"]))
	names := make([]string, 0, len(w.views))
	for n := range w.views {
		names = append(names, n)
	}
	sort.Strings(names)
	for _, name := range names {
		var want []vrow
		for _, r := range d.Docs {
			if r.Collection == "sc.A" {
				want = append(want, goMap(name, w.v1changed, r)...)
			}
		}
		sort.SliceStable(want, func(i, j int) bool {
			if cc := cmpKeys(want[i].key, want[j].key); cc != 0 {
				return cc < 0
			}
			return want[i].id < want[j].id
		})
		if name == "v1c" {
			got := viewString(a, "dd", name, nil)
			exp := "0[]"
			if len(want) > 0 {
				exp = fmt.Sprintf(`1[:null=%d]`, len(want))
			}
			if got != exp {
				c.add("C12", "reduce", "view %s (_count) returned %s, the map function over the current documents gives %s", name, got, exp)
			}
			continue
		}
		for _, ps := range viewParamSets() {
			if ps.name != "all" && name != "v1" {
				continue
			}
			if w.v1changed && ps.name != "all" && ps.name != "limit=1" && ps.name != "descending" {
				continue // the changed map emits array keys; the numeric ranges then select nothing on both sides
			}
			got := viewString(a, "dd", name, ps.params)
			// the other two entry points of the same query answer the same
			var vres sgbucket.ViewResult
			if cerr := a.ViewCustom(ctx, "dd", name, ps.params, &vres); cerr == nil {
				var rows []string
				for _, r := range vres.Rows {
					k, _ := json.Marshal(r.Key)
					v, _ := json.Marshal(r.Value)
					rows = append(rows, fmt.Sprintf("%s:%s=%s", r.ID, k, v))
				}
				if vc := fmt.Sprintf("%d%v", vres.TotalRows, rows); vc != got {
					c.add("C12", "viewcustom:"+ps.name, "view %s %s: View returned %s, ViewCustom %s", name, ps.name, got, vc)
				}
			} else if !strings.HasPrefix(got, "err:") {
				c.add("C12", "viewcustom:"+ps.name, "view %s %s: View returned %s, ViewCustom failed: %v", name, ps.name, got, cerr)
			}
			if it, qerr := a.ViewQuery(ctx, "dd", name, ps.params); qerr == nil {
				n := 0
				for {
					var row map[string]any
					if !it.Next(ctx, &row) {
						break
					}
					n++
				}
				_ = it.Close()
				if !strings.HasPrefix(got, fmt.Sprintf("%d[", n)) {
					c.add("C12", "viewquery:"+ps.name, "view %s %s: View returned %s, iterating ViewQuery gave %d rows", name, ps.name, got, n)
				}
			} else if !strings.HasPrefix(got, "err:") {
				c.add("C12", "viewquery:"+ps.name, "view %s %s: View returned %s, ViewQuery failed: %v", name, ps.name, got, qerr)
			}
			exp := rowsString(ps.filter(want))
			if got != exp {
				c.add("C12", "rows:"+ps.name, "view %s %s returned %s, the map function over the current documents gives %s", name, ps.name, got, exp)
			}
			if freshErr == nil {
				if fresh := viewString(w.a[w.step%2], "fresh", name, ps.params); fresh != got {
					c.add("C12", "incremental-vs-fresh:"+ps.name, "view %s %s: incrementally maintained index returned %s, a freshly built identical view %s", name, ps.name, got, fresh)
				}
			}
		}
	}
	if freshErr == nil {
		_ = w.a[w.step%2].DeleteDDoc("fresh")
	}
	// include_docs is not among the parameters the statement determines, so its rows are not judged; but
	// whatever it answers (it fails on a non-JSON body), no connection may stay checked out: on an in-memory
	// bucket (one connection) the next write would block for ever, with the bucket mutex held
	_, _ = a.View(ctx, "dd", "v2", map[string]any{"include_docs": true})
	for hi, h := range w.h {
		if n := rosmar.VerifInUse(h); n != 0 {
			c.add("C20", "connection-leak", "%d connection(s) of handle %d still checked out after a view query with include_docs returned", n, hi)
		}
	}
}

func (w *ViewWorld) Canon() string {
	d, err := rosmar.VerifDumpAll(w.h[0])
	if err != nil {
		return "?"
	}
	var cas []uint64
	var aLast uint64
	for _, cl := range d.Collections {
		if cl.Name == "sc.A" {
			aLast = cl.LastCas
		}
	}
	cas = append(cas, aLast, d.BucketLastCas) // the bucket-wide mark moves with writes to other collections
	for _, r := range d.Docs {
		if r.Collection == "sc.A" {
			cas = append(cas, r.Cas)
		}
	}
	for _, v := range d.Views {
		if v.Collection == "sc.A" {
			cas = append(cas, v.LastCas)
		}
	}
	sort.Slice(cas, func(i, j int) bool { return cas[i] < cas[j] })
	rank := map[uint64]int{}
	for _, v := range cas {
		if _, ok := rank[v]; !ok {
			rank[v] = len(rank)
		}
	}
	var b strings.Builder
	for _, r := range d.Docs {
		if r.Collection == "sc.A" {
			fmt.Fprintf(&b, "%s:%q/%v/%v x=%q cas#%d;", r.Key, r.Value, r.HasValue, r.IsJSON, r.Xattrs, rank[r.Cas])
		}
	}
	fmt.Fprintf(&b, "last#%d bucket#%d|", rank[aLast], rank[d.BucketLastCas])
	for _, v := range d.Views {
		if v.Collection == "sc.A" {
			fmt.Fprintf(&b, "%s/%s:%d#%d:%v;", v.DDoc, v.View, len(v.MapFn), rank[v.LastCas], v.Mapped)
		}
	}
	fmt.Fprintf(&b, "|changed=%v ddocputs=%v caches=%s/%s", w.v1changed, w.ddocPuts, CacheState(w.h[0]), CacheState(w.h[1]))
	return b.String()
}

func (w *ViewWorld) Close() {
	_ = w.h[0].CloseAndDelete(ctx)
	vrt.Quiesce()
}
