package h

import (
	"bytes"
	"encoding/json"
	"fmt"
	"reflect"
	"strconv"
	"strings"

	"github.com/couchbaselabs/rosmar"
)

func rowString(r *rosmar.VerifDocRow) string {
	if r == nil {
		return "<no row>"
	}
	return fmt.Sprintf("v=%q has=%v cas=%d exp=%d x=%q json=%v tomb=%d rev=%d", r.Value, r.HasValue, r.Cas, r.Exp, r.Xattrs, r.IsJSON, r.Tombstone, r.RevSeqNo)
}

type checker struct {
	op   string
	pre  string
	out  []Violation
	seen map[string]bool
}

func (c *checker) add(prop, field, format string, args ...any) {
	v := Violation{Prop: prop, Op: c.op, Pre: c.pre, Field: field, Detail: fmt.Sprintf(format, args...)}
	if c.seen == nil {
		c.seen = map[string]bool{}
	}
	if c.seen[v.Sig()] {
		return
	}
	c.seen[v.Sig()] = true
	c.out = append(c.out, v)
}

func (c *checker) addAll(props []string, field, format string, args ...any) {
	for _, p := range props {
		if p != "" {
			c.add(p, field, format, args...)
		}
	}
}

func inList(s string, l []string) bool {
	for _, x := range l {
		if x == s {
			return true
		}
	}
	return false
}

func isXattrEP(ep string) bool {
	return strings.Contains(ep, "Xattrs") || strings.HasPrefix(ep, "DeleteSubDocPaths")
}

// realX filters a read-back xattr map down to the real (non-virtual) names.
func realX(m map[string]string) map[string]string {
	out := map[string]string{}
	for k, v := range m {
		if !strings.HasPrefix(k, "$") {
			out[k] = v
		}
	}
	return out
}

// xEqual compares an expected xattr map with a stored one: names in `sem` semantically, others byte-for-byte.
func xEqual(want, got map[string]string, sem map[string]bool) (bool, string) {
	for k, w := range want {
		g, ok := got[k]
		if !ok {
			return false, fmt.Sprintf("xattr %q missing (want %s)", k, w)
		}
		if sem[k] {
			if !JSONEqual([]byte(w), []byte(g)) {
				return false, fmt.Sprintf("xattr %q = %s, want %s", k, g, w)
			}
		} else if w != g {
			return false, fmt.Sprintf("xattr %q = %s, want byte-identical %s", k, g, w)
		}
	}
	for k, g := range got {
		if _, ok := want[k]; !ok {
			return false, fmt.Sprintf("unexpected xattr %q = %s", k, g)
		}
	}
	return true, ""
}

// CheckCoherence verifies that every observer of one key agrees with the stored row (C01, C05, C09, C17).
func CheckCoherence(c *checker, key string, o DocObs) {
	d := DocFromRow(o.Row)
	f := func(s string) string { return key + "." + s }
	// --- plain reads (C01) and body-based tombstone view (C05)
	switch {
	case d.Live:
		if o.GetRaw.Err != "" || !bytes.Equal(o.GetRaw.Body, d.Body) || o.GetRaw.Cas != d.Cas {
			c.add("C01", f("GetRaw"), "GetRaw=(%q,cas %d,err %q) but the stored document is %s", o.GetRaw.Body, o.GetRaw.Cas, o.GetRaw.Err, rowString(o.Row))
		}
		if o.Get.Err != "" || !bytes.Equal(o.Get.Body, d.Body) || o.Get.Cas != d.Cas {
			c.add("C01", f("Get"), "Get=(%q,cas %d,err %q) but the stored document is %s", o.Get.Body, o.Get.Cas, o.Get.Err, rowString(o.Row))
		}
		if o.Exists.Err != "" || !o.Exists.Bool {
			c.addAll([]string{"C01", "C05"}, f("Exists"), "Exists=(%v,%q) for a document with a body", o.Exists.Bool, o.Exists.Err)
		}
		if o.Expiry.Err != "" || o.Expiry.Exp != d.Exp {
			c.addAll([]string{"C01", "C14"}, f("GetExpiry"), "GetExpiry=(%d,%q), stored %d", o.Expiry.Exp, o.Expiry.Err, d.Exp)
		}
	default:
		if o.GetRaw.Err != "missing" {
			c.addAll([]string{"C01", "C05"}, f("GetRaw"), "GetRaw=(%q,err %q) for a key without a body", o.GetRaw.Body, o.GetRaw.Err)
		}
		if o.Get.Err != "missing" {
			c.addAll([]string{"C01", "C05"}, f("Get"), "Get err %q for a key without a body", o.Get.Err)
		}
		if o.Exists.Err != "" || o.Exists.Bool {
			c.addAll([]string{"C01", "C05"}, f("Exists"), "Exists=(%v,%q) for a key without a body", o.Exists.Bool, o.Exists.Err)
		}
		if !d.Row && o.Expiry.Err != "missing" {
			c.add("C01", f("GetExpiry"), "GetExpiry=(%d,%q) for an absent key", o.Expiry.Exp, o.Expiry.Err)
		}
		if d.Row && o.Expiry.Err != "missing" { // C01 lists GetExpiry among the reads that report a deleted key as missing
			c.add("C01", f("GetExpiry"), "GetExpiry=(%d,%q) for a tombstone (stored exp %d): a deleted key reads as missing", o.Expiry.Exp, o.Expiry.Err, d.Exp)
		}
	}
	// --- GetWithXattrs / GetXattrs
	if !d.Row {
		if o.GWX.Err != "missing" {
			c.addAll([]string{"C01", "C05"}, f("GetWithXattrs"), "GetWithXattrs err %q for an absent key", o.GWX.Err)
		}
	} else if !d.XBad {
		if o.GWX.Err != "" {
			c.add("C01", f("GetWithXattrs"), "GetWithXattrs err %q (%s) for %s", o.GWX.Err, o.GWX.ErrMsg, rowString(o.Row))
		} else {
			if d.Live && !bytes.Equal(o.GWX.Body, d.Body) {
				c.add("C01", f("GetWithXattrs.body"), "GetWithXattrs body %q, stored %q", o.GWX.Body, d.Body)
			}
			if !d.Live && o.GWX.Body != nil {
				c.add("C05", f("GetWithXattrs.body"), "GetWithXattrs returns body %q for a tombstone", o.GWX.Body)
			}
			if o.GWX.Cas != d.Cas {
				c.add("C01", f("GetWithXattrs.cas"), "GetWithXattrs cas %d, stored %d", o.GWX.Cas, d.Cas)
			}
			if ok, why := xEqual(d.X, realX(o.GWX.Xattrs), nil); !ok {
				c.add("C07", f("GetWithXattrs.xattrs"), "GetWithXattrs xattrs disagree with the stored ones: %s", why)
			}
			wantRev := fmt.Sprintf(`"%d"`, d.Rev)
			if got := o.GWX.Xattrs["$document.revid"]; got != wantRev {
				c.add("C17", f("$document.revid"), "$document.revid=%s, stored revision %d", got, d.Rev)
			}
			var vd struct {
				Revid string `json:"revid"`
				Crc   string `json:"value_crc32c"`
			}
			_ = json.Unmarshal([]byte(o.GWX.Xattrs["$document"]), &vd)
			if vd.Revid != strconv.FormatInt(d.Rev, 10) {
				c.add("C17", f("$document"), "$document=%s, stored revision %d", o.GWX.Xattrs["$document"], d.Rev)
			}
		}
		if o.GX.Err == "" {
			if ok, why := xEqual(d.X, realX(o.GX.Xattrs), nil); !ok {
				c.add("C07", f("GetXattrs"), "GetXattrs disagrees with the stored xattrs: %s", why)
			}
			if o.GX.Cas != d.Cas {
				c.add("C01", f("GetXattrs.cas"), "GetXattrs cas %d, stored %d", o.GX.Cas, d.Cas)
			}
		}
	}
	// --- GetSubDocRaw returns the JSON of exactly the addressed property (C18)
	if d.Live && d.IsJSON {
		var doc map[string]any
		if json.Unmarshal(d.Body, &doc) == nil && doc != nil {
			for p, got := range o.Sub {
				var cur any = doc
				found, null := true, false
				for _, part := range strings.Split(p, ".") {
					m, ok := cur.(map[string]any)
					if !ok {
						found = false
						break
					}
					if cur, ok = m[part]; !ok {
						found = false
						break
					}
					if cur == nil {
						null = true // present with value null: `null` and "no such path" are both accepted (R2)
						break
					}
				}
				if null {
					if got.Err == "" && strings.TrimSpace(string(got.Body)) != "null" {
						c.add("C18", f("GetSubDocRaw."+p), "GetSubDocRaw(%q) returned %s for a property whose value is null", p, got.Body)
					}
				} else if found {
					want, _ := json.Marshal(cur)
					if got.Err != "" || !JSONEqual(want, got.Body) || got.Cas != d.Cas {
						c.add("C18", f("GetSubDocRaw."+p), "GetSubDocRaw(%q)=(%s, cas %d, err %q), the document's property is %s (cas %d)", p, got.Body, got.Cas, got.Err, want, d.Cas)
					}
				} else if got.Err == "" {
					c.add("C18", f("GetSubDocRaw."+p), "GetSubDocRaw(%q) returned %s although the document %s has no such property", p, got.Body, d.Body)
				}
			}
		}
	} else if !d.Live {
		for p, got := range o.Sub {
			if got.Err == "" {
				c.add("C18", f("GetSubDocRaw."+p), "GetSubDocRaw(%q) returned %s for a key without a body", p, got.Body)
			}
		}
	}
	// --- backfill view of the key (C05 opcode/body, C09 fields, C17 RevNo)
	bf := o.Backfill
	if !d.Row {
		if bf != nil {
			c.add("C09", f("backfill"), "backfill delivers %s for an absent key", bf)
		}
		return
	}
	if bf == nil {
		c.add("C09", f("backfill"), "backfill from CAS 0 omits the key (stored %s)", rowString(o.Row))
		return
	}
	CheckEventAgainstDoc(c, f("backfill"), []string{"C09"}, *bf, key, d)
}

// CheckEventAgainstDoc compares a feed event with the document state it must describe.
func CheckEventAgainstDoc(c *checker, field string, props []string, e EventObs, key string, d Doc) {
	with := func(extra ...string) []string { return append(append([]string(nil), props...), extra...) }
	if e.Key != key {
		c.addAll(props, field+".key", "event key %q, want %q", e.Key, key)
	}
	wantOp := "Mutation"
	if !d.Live {
		wantOp = "Deletion"
	}
	if e.Opcode != wantOp {
		c.addAll(with("C05"), field+".opcode", "event opcode %s for a document %s a body", e.Opcode, ifs(d.Live, "with", "without"))
	}
	if d.Live && !bytes.Equal(e.Body, d.Body) {
		c.addAll(props, field+".body", "event body %q, document body %q", e.Body, d.Body)
	}
	if !d.Live && e.HasBody {
		c.addAll(with("C05"), field+".body", "event carries body %q for a document without a body", e.Body)
	}
	if !d.XBad {
		if ok, why := xEqual(d.X, e.Xattrs, nil); !ok {
			c.addAll(props, field+".xattrs", "event xattrs disagree with the document's: %s", why)
		}
	}
	// datatype: the JSON bit must equal the stored isJSON of a document with a body (it means nothing
	// for a tombstone); the xattr bit must be set when there are xattrs (with none, either way).
	if d.Live && (e.DataType&1 != 0) != d.IsJSON {
		c.addAll(props, field+".datatype", "event datatype %d but the document is stored with isJSON=%v", e.DataType, d.IsJSON)
	}
	if len(d.X) > 0 && e.DataType&4 == 0 {
		c.addAll(props, field+".datatype", "event datatype %d lacks the xattr bit although the document has xattrs", e.DataType)
	}
	if e.Cas != d.Cas {
		c.addAll(props, field+".cas", "event cas %d, document cas %d", e.Cas, d.Cas)
	}
	if e.Expiry != d.Exp {
		c.addAll(with("C14"), field+".expiry", "event expiry %d, document expiry %d", e.Expiry, d.Exp)
	}
	if e.RevNo != uint64(d.Rev) {
		c.addAll(with("C17"), field+".revno", "event RevNo %d, document revision %d", e.RevNo, d.Rev)
	}
}

// CheckBackfillOrder: between the markers, ascending CAS, one event per row of the collection.
func CheckBackfillOrder(c *checker, o KVObs, collName string) {
	if o.BackfillErr != "" {
		c.add("C09", "backfill.start", "Dump feed failed: %s", o.BackfillErr)
		return
	}
	bf := o.Backfill
	if len(bf) < 2 || bf[0].Opcode != "BeginBackfill" || bf[len(bf)-1].Opcode != "EndBackfill" {
		c.add("C09", "backfill.markers", "backfill is not framed by begin/end markers: %v", bf)
		return
	}
	n := 0
	for _, r := range o.Dump.Docs {
		if r.Collection == collName {
			n++
		}
	}
	mid := bf[1 : len(bf)-1]
	if len(mid) != n {
		c.add("C09", "backfill.count", "backfill from 0 has %d events for %d stored documents", len(mid), n)
	}
	for i := 1; i < len(mid); i++ {
		if mid[i].Cas <= mid[i-1].Cas {
			c.add("C09", "backfill.order", "backfill not in CAS order: %d then %d", mid[i-1].Cas, mid[i].Cas)
		}
	}
	// other start CAS values: exactly the documents with CAS >= s, same events as the full backfill
	full := map[string]EventObs{}
	for _, e := range mid {
		full[e.Key] = e
	}
	// a KeysOnly backfill describes the same documents, without bodies and xattrs
	if o.BackfillKeysOnly != nil {
		ko := o.BackfillKeysOnly
		if len(ko) < 2 || len(ko)-2 != len(mid) {
			c.add("C09", "backfill.keysonly", "KeysOnly backfill has %d events, the full one %d", len(ko)-2, len(mid))
		} else {
			for i, e := range ko[1 : len(ko)-1] {
				f := mid[i]
				if e.Key != f.Key || e.Opcode != f.Opcode || e.Cas != f.Cas || e.Expiry != f.Expiry || e.RevNo != f.RevNo {
					c.add("C09", "backfill.keysonly", "KeysOnly backfill describes %s as %s, the full backfill as %s", f.Key, e, f)
				}
				if e.HasBody || len(e.Xattrs) > 0 {
					c.add("C09", "backfill.keysonly", "KeysOnly backfill event for %s carries a value: %s", f.Key, e)
				}
			}
		}
	}
	for s, evs := range o.BackfillFrom {
		if len(evs) < 2 || evs[0].Opcode != "BeginBackfill" || evs[len(evs)-1].Opcode != "EndBackfill" {
			c.add("C09", "backfill.markers", "backfill from %d is not framed by markers: %v", s, evs)
			continue
		}
		got := map[string]EventObs{}
		var prev uint64
		for _, e := range evs[1 : len(evs)-1] {
			got[e.Key] = e
			if e.Cas <= prev {
				c.add("C09", "backfill.order", "backfill from %d not in CAS order", s)
			}
			prev = e.Cas
		}
		for _, r := range o.Dump.Docs {
			if r.Collection != collName {
				continue
			}
			e, ok := got[r.Key]
			if r.Cas >= s && !ok {
				c.add("C09", "backfill.startcas", "backfill from CAS %d omits %s whose CAS is %d", s, r.Key, r.Cas)
			}
			if r.Cas < s && ok {
				c.add("C09", "backfill.startcas", "backfill from CAS %d includes %s whose CAS is %d", s, r.Key, r.Cas)
			}
			if ok && fmt.Sprint(e) != fmt.Sprint(full[r.Key]) {
				c.add("C09", "backfill.startcas", "backfill from CAS %d describes %s as %s, the full backfill as %s", s, r.Key, e, full[r.Key])
			}
		}
	}
}

// CheckKVStep is the per-transition oracle of the shared exploration.
func CheckKVStep(op Op, env Env, pre, post KVObs, res Result) []Violation {
	key := op.Key
	preRow, postRow := pre.Rows["sc.A/"+key], post.Rows["sc.A/"+key]
	preDoc, postDoc := DocFromRow(preRow), DocFromRow(postRow)
	c := &checker{op: op.Name, pre: preDoc.SigClass()}
	exp := op.Spec(preDoc, env)
	outProps := strings.Split(exp.OutcomeProp, ",")

	if res.Panic != "" {
		props := []string{"C01", "C08", "C17", "C20"}
		if isXattrEP(op.EP) {
			props = append(props, "C07")
		}
		c.addAll(props, "panic", "the call panicked: %s", firstLine(res.Panic))
	}

	// ---- outcome
	if exp.Succeeds == Yes && !res.OK() && res.Panic == "" {
		c.addAll(outProps, "outcome", "must succeed on a %s document but returned %s (%s)", preDoc.Class(), res, res.ErrMsg)
	}
	if exp.Succeeds == No && res.OK() {
		c.addAll(outProps, "outcome", "must be refused on a %s document but succeeded", preDoc.Class())
	}
	if exp.Succeeds == No && !res.OK() && res.Err != "" && exp.FailClasses != nil && !inList(res.Err, exp.FailClasses) {
		c.addAll(outProps, "errclass", "refused with %s (%s), want one of %v", res.Err, res.ErrMsg, exp.FailClasses)
	}

	// ---- the other key of the collection is never touched
	other := "j"
	if key == "j" {
		other = "k"
	}
	if op.Name != "PurgeTombstones" && op.Name != "ExpirySweep" && rowString(pre.Rows["sc.A/"+other]) != rowString(post.Rows["sc.A/"+other]) {
		c.add("C01", "otherkey", "key %s changed from %s to %s", other, rowString(pre.Rows["sc.A/"+other]), rowString(post.Rows["sc.A/"+other]))
	}

	liveFeeds := []string{"fA0", "fA1"}
	nEvents := func(name string) int { return len(post.Events[name]) }

	if !res.OK() {
		// ---- failure / refusal: nothing changes, nothing is delivered
		if res.Panic == "" {
			if rowString(preRow) != rowString(postRow) {
				props := append([]string{"C01"}, outProps...)
				if isXattrEP(op.EP) {
					props = append(props, "C07")
				}
				c.addAll(props, "unchanged-on-error", "call returned %s (%s) but the document changed from %s to %s", res, res.ErrMsg, rowString(preRow), rowString(postRow))
			}
			for _, fn := range liveFeeds {
				if nEvents(fn) != 0 {
					c.add("C08", "event-on-failure", "call returned %s but feed %s received %v", res, fn, post.Events[fn])
				}
			}
		}
	} else if op.Name == "PurgeTombstones" {
		nTomb := 0
		for name, r := range pre.Rows {
			if !r.HasValue {
				nTomb++
				if post.Rows[name] != nil {
					c.add("C05", "purge", "tombstone %s survived PurgeTombstones", name)
				}
			} else if rowString(r) != rowString(post.Rows[name]) {
				c.add("C05", "purge", "PurgeTombstones changed live document %s: %s -> %s", name, rowString(r), rowString(post.Rows[name]))
			}
		}
		if res.Num != uint64(nTomb) {
			c.add("C05", "purge.count", "PurgeTombstones returned %d, %d tombstones existed", res.Num, nTomb)
		}
	} else if exp.NoChange {
		if rowString(preRow) != rowString(postRow) {
			c.add("C01", "nochange", "a cancelled call changed the document from %s to %s", rowString(preRow), rowString(postRow))
		}
		for _, fn := range liveFeeds {
			if nEvents(fn) != 0 {
				c.add("C08", "event-on-noop", "nothing was written but feed %s received %v", fn, post.Events[fn])
			}
		}
	} else {
		// ---- success: post-state
		if (op.EP == "WriteSubDoc" || op.EP == "SubdocInsert") && postDoc.Row && rowString(preRow) == rowString(postRow) &&
			!(exp.Body != nil && preDoc.Live && JSONEqual(exp.Body, preDoc.Body)) { // (a write that changes nothing may be skipped)
			// "equivalent to atomically reading the document, setting the property and writing it back"
			c.add("C18", "success-without-write", "the call reported success (CAS %d) but the document was not written: %s", res.Cas, rowString(postRow))
		}
		if !postDoc.Row {
			c.add("C01", "row", "call succeeded but no document is stored")
		} else {
			if exp.Live == Yes && !postDoc.Live {
				c.add("C01", "live", "call succeeded and must leave a body, but the document has none: %s", rowString(postRow))
			}
			if exp.Live == No && postDoc.Live {
				c.addAll([]string{"C01", "C05"}, "live", "call must leave no body, but the document has one: %s", rowString(postRow))
			}
			if exp.Live == Yes && exp.Body != nil && postDoc.Live {
				same := bytes.Equal(exp.Body, postDoc.Body)
				if exp.BodyJSON {
					same = JSONEqual(exp.Body, postDoc.Body)
				}
				if !same {
					prop := "C01"
					if exp.OutcomeProp == "C18" || strings.Contains(op.EP, "ubdoc") || strings.Contains(op.EP, "SubDoc") {
						prop = "C18"
					}
					c.addAll([]string{"C01", prop}, "body", "stored body %q, want %q", postDoc.Body, exp.Body)
				}
			}
			xprops := []string{"C07"}
			if !preDoc.Live || !postDoc.Live {
				xprops = append(xprops, "C05")
			}
			if !postDoc.XBad {
				if exp.XSet {
					for name := range exp.Macros {
						var xv map[string]any
						if json.Unmarshal([]byte(exp.X[name]), &xv) == nil && xv != nil {
							xv["cas"], xv["crc"] = casAsString(postDoc.Cas), crc32cString(postDoc.Body)
							b, _ := json.Marshal(xv)
							exp.X[name] = string(b)
						}
					}
					if ok, why := xEqual(exp.X, postDoc.X, exp.XNamed); !ok {
						c.addAll(xprops, "xattrs", "%s (stored %s, want %s)", why, fmtX(postDoc.X), fmtX(exp.X))
					}
				} else if exp.XSysKeep || exp.XExcept {
					for k, v := range sysOnly(preDoc.X) {
						if exp.XExcept && inList(k, exp.XSysKeepExcept) {
							continue
						}
						if postDoc.X[k] != v {
							c.addAll(xprops, "xattrs", "system xattr %q was %s, now %q", k, v, postDoc.X[k])
						}
					}
					for _, k := range exp.XSysKeepExcept {
						if _, ok := postDoc.X[k]; ok {
							c.addAll(xprops, "xattrs", "xattr %q should have been removed", k)
						}
					}
				}
			} else {
				c.add("C07", "xattrs", "stored xattrs are not a JSON object: %q", postRow.Xattrs)
			}
			if exp.ExpSet && postDoc.Exp != exp.Exp {
				c.addAll([]string{"C01", "C14"}, "expiry", "stored expiry %d, want %d", postDoc.Exp, exp.Exp)
			}
			if exp.IsJSON == Yes && !postDoc.IsJSON {
				c.add("C01", "isjson", "document stored as non-JSON")
			}
			// CAS
			switch {
			case exp.SameCas:
				if postDoc.Cas != preDoc.Cas {
					// a touch may or may not stamp a new CAS; only going backwards is wrong
					if postDoc.Cas < preDoc.Cas {
						c.add("C04", "cas", "CAS went backwards %d -> %d", preDoc.Cas, postDoc.Cas)
					}
				}
			case exp.CasGiven != 0:
				if postDoc.Cas != exp.CasGiven {
					c.add("C01", "cas", "stored CAS %d, want the supplied %d", postDoc.Cas, exp.CasGiven)
				}
			default:
				if postDoc.Cas <= env.Issued {
					c.add("C04", "cas", "new CAS %d is not above every CAS handed out earlier (max %d)", postDoc.Cas, env.Issued)
				}
			}
			if res.Cas != 0 && res.Cas != postDoc.Cas {
				c.add("C01", "casout", "call returned CAS %d but the stored CAS is %d", res.Cas, postDoc.Cas)
			}
			// revision counter
			wantRev := preDoc.Rev + 1
			if !preDoc.Row {
				wantRev = 1
			}
			if postDoc.Rev != wantRev {
				c.add("C17", "rev", "revision %d -> %d, want %d", preDoc.Rev, postDoc.Rev, wantRev)
			}
			// macros
			if exp.Macros != nil {
				for name := range exp.Macros {
					var xv map[string]any
					_ = json.Unmarshal([]byte(postDoc.X[name]), &xv)
					if xv["cas"] != casAsString(postDoc.Cas) {
						c.add("C07", "macro.cas", "xattr %s.cas=%v, want %s (the mutation's CAS %d)", name, xv["cas"], casAsString(postDoc.Cas), postDoc.Cas)
					}
					if xv["crc"] != crc32cString(postDoc.Body) {
						c.add("C07", "macro.crc", "xattr %s.crc=%v, want %s (checksum of the stored body)", name, xv["crc"], crc32cString(postDoc.Body))
					}
				}
			}
		}
		// return values
		if op.EP == "Incr" && postDoc.Live && string(postDoc.Body) != strconv.FormatUint(res.Num, 10) {
			c.add("C01", "incr.result", "Incr returned %d but stored %q", res.Num, postDoc.Body)
		}
		if op.EP == "GetAndTouchRaw" && !bytes.Equal(res.Val, preDoc.Body) {
			c.add("C01", "gat.value", "GetAndTouchRaw returned %q, document body %q", res.Val, preDoc.Body)
		}
		// events: exactly one per live feed, faithful to the post-state
		if !exp.Gone && postDoc.Row {
			for _, fn := range liveFeeds {
				evs := post.Events[fn]
				if exp.EventOptional && len(evs) == 0 {
					continue
				}
				if len(evs) != 1 {
					c.add("C08", "event.count", "feed %s received %d events for one successful mutation: %v", fn, len(evs), evs)
					continue
				}
				props := []string{"C08"}
				if pre.W != nil {
					// with same-key witnesses around, an event that does not describe this collection's
					// own document is also a failure of isolation
					props = append(props, "C11")
				}
				CheckEventAgainstDoc(c, "event", props, evs[0], key, postDoc)
				if evs[0].CollID != post.CollIDA {
					c.add("C08", "event.collection", "feed %s: event carries collection id %d, the collection's id is %d", fn, evs[0].CollID, post.CollIDA)
				}
			}
			// the KeysOnly live feed sees the same mutation, without its body
			if kev, ok := post.Events["fAk"]; ok {
				want := len(post.Events["fA0"])
				if len(kev) != want {
					c.add("C08", "event.keysonly", "the KeysOnly feed received %d events, the ordinary feed %d", len(kev), want)
				} else if want == 1 {
					if kev[0].Key != key || kev[0].Cas != postDoc.Cas || kev[0].Opcode != post.Events["fA0"][0].Opcode {
						c.add("C08", "event.keysonly", "the KeysOnly feed received %v for a mutation that left %s with CAS %d", kev[0], key, postDoc.Cas)
					}
					if kev[0].HasBody && len(kev[0].Body) > 0 {
						c.add("C08", "event.keysonly", "the KeysOnly feed's event carries a body: %q", kev[0].Body)
					}
				}
			}
		}
	}
	// callbacks are shown the current version (C03, sequential consequence)
	if len(res.Shown) > 0 {
		last := res.Shown[len(res.Shown)-1]
		var want []byte
		if preDoc.Live {
			want = preDoc.Body
		}
		if !bytes.Equal(last, want) {
			c.add("C03", "shown", "callback was shown %q, current body %q", last, want)
		}
		if len(res.ShownCas) > 0 && res.ShownCas[len(res.ShownCas)-1] != preDoc.Cas {
			c.add("C03", "shown.cas", "callback was shown CAS %d, current %d", res.ShownCas[len(res.ShownCas)-1], preDoc.Cas)
		}
	}

	// ---- post-state coherence of both keys
	if !post.ReadsPure {
		c.add("C01", "reads-mutate", "the rows changed while only read operations ran")
	}
	CheckCoherence(c, "k", post.K)
	CheckCoherence(c, "j", post.J)
	CheckBackfillOrder(c, post, "sc.A")

	// ---- isolation of the witnesses (C11)
	if pre.W != nil {
		purge := op.Name == "PurgeTombstones"
		for name, w := range pre.W {
			if purge && strings.HasPrefix(name, "B.") {
				continue // purge is bucket-wide by definition
			}
			if !reflect.DeepEqual(w, post.W[name]) {
				a, _ := json.Marshal(w)
				b, _ := json.Marshal(post.W[name])
				c.add("C11", "witness."+name, "witness %s changed: %s -> %s", name, a, b)
			}
		}
		if !purge && pre.WRows != post.WRows {
			c.add("C11", "witness.rows", "witness rows changed:\n%s\n->\n%s", pre.WRows, post.WRows)
		}
		for _, fn := range []string{"fB", "fA2"} {
			if nEvents(fn) != 0 {
				c.add("C11", "witness.feed", "feed %s of another collection/bucket received %v", fn, post.Events[fn])
			}
		}
	}
	return c.out
}

func firstLine(s string) string {
	if i := strings.IndexByte(s, '\n'); i >= 0 {
		return s[:i]
	}
	return s
}
