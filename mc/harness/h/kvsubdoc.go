package h

import (
	"encoding/json"
	"strings"
)

func jsonUnmarshal(b []byte, v any) error {
	if len(b) == 0 {
		return nil
	}
	return json.Unmarshal(b, v)
}

// SubdocSpec is the specification of WriteSubDoc / SubdocInsert (C18): read the document, set or
// remove the addressed property, write it back; everything the statement does not fix is silent.
func SubdocSpec(pre Doc, cas uint64, insert bool, path string, raw []byte) Expect {
	parts := strings.Split(path, ".")
	casFail := Expect{Succeeds: No, OutcomeProp: "C02,C18", FailClasses: []string{"casmismatch", "missing"}}
	if !pre.Live {
		if insert {
			return Expect{Succeeds: No, OutcomeProp: "C18", FailClasses: []string{"missing"}}
		}
		if cas != 0 {
			if !pre.Row || cas != pre.Cas {
				return casFail
			}
			return Expect{} // current CAS of a tombstone: silent
		}
		if len(parts) != 1 || len(raw) == 0 {
			return Expect{}
		}
		var v any
		_ = json.Unmarshal(raw, &v)
		body, _ := json.Marshal(map[string]any{parts[0]: v})
		return Expect{Succeeds: Yes, OutcomeProp: "C18", Live: Yes, Body: body, BodyJSON: true, XSet: true, X: map[string]string{}}
	}
	var doc map[string]any
	if !pre.IsJSON || json.Unmarshal(pre.Body, &doc) != nil || doc == nil {
		return Expect{} // not a JSON object: outside the statement
	}
	if cas != 0 && cas != pre.Cas {
		return casFail
	}
	parent := doc
	for _, p := range parts[:len(parts)-1] {
		next, ok := parent[p].(map[string]any)
		if !ok {
			return Expect{} // missing / non-object intermediate: silent
		}
		parent = next
	}
	leaf := parts[len(parts)-1]
	if insert {
		if v, ok := parent[leaf]; ok {
			if v == nil {
				return Expect{} // explicit null: R2
			}
			return Expect{Succeeds: No, OutcomeProp: "C18", FailClasses: []string{"pathexists"}}
		}
	}
	if len(raw) == 0 {
		if insert {
			return Expect{}
		}
		delete(parent, leaf)
	} else {
		var v any
		if json.Unmarshal(raw, &v) != nil {
			return Expect{}
		}
		if v == nil {
			return Expect{}
		}
		parent[leaf] = v
	}
	body, _ := json.Marshal(doc)
	return Expect{Succeeds: Yes, OutcomeProp: "C18", Live: Yes, Body: body, BodyJSON: true, XSet: true, X: copyX(pre.X)}
}
