package h

import (
	"encoding/json"
	"fmt"
	"sort"
	"strings"
	"time"

	sgbucket "github.com/couchbase/sg-bucket"
	"github.com/couchbaselabs/rosmar"
	"github.com/couchbaselabs/rosmar/vrt"
)

// IsoWorld: isolation of collections and buckets (C11). Subject collection sc.A of bucket b1;
// witnesses sc.B of b1 and sc.A of b2 hold the same keys in several lifecycle classes plus their
// own design document, view and live feed. Everything a witness returns is re-observed after
// every operation on the subject and must be byte-identical, except for the effects the
// statement itself makes bucket-wide (purge, expiry) or addresses to the witness (drop).

const isoMapFn = `function(doc, meta) { if (doc.v !== undefined) { emit(doc.v, meta.id); } }`

type IsoWorld struct {
	cfg     Config
	b1, b2  *rosmar.Bucket
	b1x, b1y *rosmar.Bucket // further handles on b1: x opened the subject collection at the start, y never opens any
	a, b, c *rosmar.Collection // subject, witness in b1, witness in b2
	fa, fb, fc *FeedRec
	aDropped, bDropped bool
	hasIndex bool // an SQL index was created through the subject collection (not visible in any table dump)
	wit     string // last witness observation
	oldFeeds []*FeedRec
	step    int
}

func preloadWitness(c *rosmar.Collection) {
	_, err := c.WriteWithXattrs(ctx, "k", 50, 0, []byte(`{"v":"wk"}`), map[string][]byte{"_s": []byte(`{"w":"s"}`), "u": []byte(`{"w":"u"}`)}, nil, nil)
	must(err)
	must(c.Set("j", 0, nil, []byte(`{"v":"wj"}`)))
	_, err = c.WriteWithXattrs(ctx, "t", 0, 0, []byte(`{"v":"wt"}`), map[string][]byte{"_s": []byte(`{"w":"t"}`)}, nil, nil)
	must(err)
	must(c.Delete("t"))
	must(c.PutDDoc(ctx, "dd", &sgbucket.DesignDoc{Views: sgbucket.ViewMap{"v": sgbucket.ViewDef{Map: isoMapFn}}}))
	_, err = c.View(ctx, "dd", "v", nil)
	must(err)
}

func init() {
	RegisterWorld("isolation", func(cfg Config) GenWorld {
		w := &IsoWorld{cfg: cfg}
		var err error
		w.b1, err = rosmar.OpenBucket(BucketURL(cfg, "b1"), "b1", rosmar.CreateOrOpen)
		must(err)
		w.b2, err = rosmar.OpenBucket(BucketURL(cfg, "b2"), "b2", rosmar.CreateOrOpen)
		must(err)
		w.a, w.b, w.c = coll(w.b1, NameA), coll(w.b1, NameB), coll(w.b2, NameA)
		w.b1x, err = rosmar.OpenBucket(BucketURL(cfg, "b1"), "b1", rosmar.CreateOrOpen)
		must(err)
		w.b1y, err = rosmar.OpenBucket(BucketURL(cfg, "b1"), "b1", rosmar.CreateOrOpen)
		must(err)
		_ = coll(w.b1x, NameA)
		preloadWitness(w.b)
		preloadWitness(w.c)
		w.fa, err = StartLiveFeed(w.a, "fa")
		must(err)
		w.fb, err = StartLiveFeed(w.b, "fb")
		must(err)
		w.fc, err = StartLiveFeed(w.c, "fc")
		must(err)
		vrt.Quiesce()
		w.fb.Take()
		w.fc.Take()
		w.wit = w.observeWitnesses()
		return w
	})
}

func (w *IsoWorld) Bucket() *rosmar.Bucket { return w.b1 }

func (w *IsoWorld) Alphabet(tier int) []string {
	return []string{"Set/k", "Set/j", "Set/exp", "Add/t", "Delete/k", "Touch/k", "GetAndTouch/j", "SetXattrs/k", "WriteWithXattrs/t", "WriteTombstone/k", "Incr/n", "Update/k",
		"PutDDoc", "PutDDoc2", "DeleteDDoc", "View", "ViewStale", "Query", "CreateIndex", "Witness.SetRaw", "Purge", "Purge/y", "Advance/20", "Advance/60", "DropA", "DropA/x", "DropA/y", "RecreateA", "RecreateA/x", "Lookup/other", "CreateExisting/y", "DropB", "WriteSubDoc/k", "DeleteWithXattrs/k", "SetWithMeta/k"}
}

func viewString(c *rosmar.Collection, ddoc, view string, params map[string]any) string {
	res, err := c.View(ctx, ddoc, view, params)
	if err != nil {
		return "err:" + ErrClass(err)
	}
	var rows []string
	for _, r := range res.Rows {
		k, _ := json.Marshal(r.Key)
		v, _ := json.Marshal(r.Value)
		rows = append(rows, fmt.Sprintf("%s:%s=%s", r.ID, k, v))
	}
	return fmt.Sprintf("%d%v", res.TotalRows, rows)
}

func queryString(c *rosmar.Collection, stmt string, args map[string]any) string {
	it, err := c.Query(sgbucket.SQLiteLanguage, stmt, args, sgbucket.RequestPlus, false)
	if err != nil {
		return "err:" + err.Error()
	}
	var rows []string
	for {
		b := it.NextBytes()
		if b == nil {
			break
		}
		rows = append(rows, string(b))
	}
	if err := it.Close(); err != nil {
		return "close-err:" + err.Error()
	}
	return strings.Join(rows, ";")
}

func (w *IsoWorld) observeWitnesses() string {
	var b strings.Builder
	if !w.bDropped {
		viewString(w.b, "dd", "v", nil)
	}
	viewString(w.c, "dd", "v", nil)
	d1, err := rosmar.VerifDumpAll(w.b1)
	must(err)
	d2, err := rosmar.VerifDumpAll(w.b2)
	must(err)
	if !w.bDropped {
		b.WriteString(printRows(d1, "sc.B"))
		for _, k := range []string{"k", "j", "t"} {
			o := ObserveDoc(w.b, w.b, k)
			js, _ := json.Marshal(o)
			b.Write(js)
		}
		// (non-stale first: it brings the witness's own index up to date, so the observation is idempotent)
		b.WriteString(viewString(w.b, "dd", "v", nil))
		b.WriteString(viewString(w.b, "dd", "v", map[string]any{"stale": "ok"}))
		b.WriteString(queryString(w.b, `SELECT id, body FROM $_keyspace ORDER BY id`, nil))
		dd, err := w.b.GetDDocs()
		fmt.Fprintf(&b, "ddocs=%v %v", dd, err)
		for _, v := range d1.Views {
			if v.Collection == "sc.B" {
				fmt.Fprintf(&b, "view %s/%s %v", v.DDoc, v.View, v.Mapped)
			}
		}
	}
	b.WriteString("\n--b2--\n")
	b.WriteString(printRows(d2, ""))
	for _, k := range []string{"k", "j", "t"} {
		o := ObserveDoc(w.c, w.c, k)
		js, _ := json.Marshal(o)
		b.Write(js)
	}
	b.WriteString(viewString(w.c, "dd", "v", nil))
	b.WriteString(queryString(w.c, `SELECT id, body FROM $_keyspace ORDER BY id`, nil))
	fmt.Fprintf(&b, "b2.lastCas=%d colls=%v", d2.BucketLastCas, d2.Collections)
	names, _ := w.b2.ListDataStores()
	fmt.Fprintf(&b, "stores=%v", names)
	return b.String()
}

func (w *IsoWorld) Apply(op string) (string, []Violation) {
	w.step++
	c := &checker{op: op, pre: "isolation"}
	var err error
	bucketWide := false // the operation legitimately acts on every collection of b1
	allExpire := false
	if w.aDropped && !strings.HasPrefix(op, "RecreateA") && op != "DropB" && op != "Witness.SetRaw" && !strings.HasPrefix(op, "Purge") && !strings.HasPrefix(op, "Advance") {
		return "skip", nil
	}
	switch op {
	case "Set/k":
		err = w.a.Set("k", 0, nil, []byte(`{"v":"ak"}`))
	case "Set/j":
		err = w.a.Set("j", 0, nil, []byte(`{"v":"aj"}`))
	case "Set/exp":
		err = w.a.Set("k", 10, nil, []byte(`{"v":"ae"}`))
	case "Add/t":
		_, err = w.a.Add("t", 0, []byte(`{"v":"at"}`))
	case "Delete/k":
		err = w.a.Delete("k")
	case "Touch/k":
		_, err = w.a.Touch("k", 30)
	case "GetAndTouch/j":
		_, _, err = w.a.GetAndTouchRaw("j", 0)
	case "SetXattrs/k":
		_, err = w.a.SetXattrs(ctx, "k", map[string][]byte{"_s": []byte(`{"a":"s"}`)})
	case "WriteWithXattrs/t":
		_, err = w.a.WriteWithXattrs(ctx, "t", 0, 0, []byte(`{"v":"att"}`), map[string][]byte{"u": []byte(`{"a":"u"}`)}, nil, nil)
	case "WriteTombstone/k":
		_, err = w.a.WriteTombstoneWithXattrs(ctx, "k", 0, 0, map[string][]byte{"_s": []byte(`{"a":"ts"}`)}, nil, false, nil)
	case "Incr/n":
		_, err = w.a.Incr("n", 1, 1, 0)
	case "Update/k":
		_, err = w.a.Update("k", 0, func(cur []byte) ([]byte, *uint32, bool, error) { return []byte(`{"v":"au"}`), nil, false, nil })
	case "WriteSubDoc/k":
		_, err = w.a.WriteSubDoc(ctx, "k", "s", 0, []byte(`1`))
	case "DeleteWithXattrs/k":
		err = w.a.DeleteWithXattrs(ctx, "k", []string{"_s"})
	case "SetWithMeta/k":
		d, _ := rosmar.VerifDumpAll(w.b1)
		var cur uint64
		if r := rowsOf(d)["sc.A/k"]; r != nil {
			cur = r.Cas
		}
		err = w.a.SetWithMeta(ctx, "k", cur, cur+0x50000, 0, []byte(`{"_s":{"m":1}}`), []byte(`{"v":"am"}`), sgbucket.FeedDataTypeJSON)
	case "PutDDoc":
		err = w.a.PutDDoc(ctx, "dd", &sgbucket.DesignDoc{Views: sgbucket.ViewMap{"v": sgbucket.ViewDef{Map: isoMapFn}}})
	case "PutDDoc2":
		err = w.a.PutDDoc(ctx, "dd", &sgbucket.DesignDoc{Views: sgbucket.ViewMap{"v": sgbucket.ViewDef{Map: `function(doc, meta) { emit(meta.id, 1); }`}}})
	case "DeleteDDoc":
		err = w.a.DeleteDDoc("dd")
	case "View":
		_, err = w.a.View(ctx, "dd", "v", nil)
	case "ViewStale":
		_, err = w.a.View(ctx, "dd", "v", map[string]any{"stale": "updateAfter"})
	case "Query":
		r := queryString(w.a, `SELECT id, body FROM $_keyspace ORDER BY id`, nil)
		if strings.Contains(r, "wk") || strings.Contains(r, "wj") {
			c.add("C11", "query-leak", "a query on sc.A returned documents of another collection: %s", r)
		}
	case "CreateIndex":
		err = w.a.CreateIndex(fmt.Sprintf("ix%d", w.step), "body->>'v'", "") // an expression over JSON bodies
		if err == nil {
			w.hasIndex = true
		}
	case "Witness.SetRaw":
		// a write addressed to the witness collection itself (a non-JSON body): whatever was done to the
		// subject collection before, it succeeds
		if w.bDropped {
			return "skip", nil
		}
		if werr := w.b.SetRaw("r", 0, nil, []byte("not json")); werr != nil {
			c.add("C11", "witness-write", "a raw write to the witness collection fails after operations addressed only to the subject collection: %v", werr)
		}
		bucketWide = true // re-baseline: the witness changed by its own operation
	case "Purge":
		_, err = w.b1.PurgeTombstones()
		bucketWide = true
	case "Purge/y":
		var n int64
		n, err = w.b1y.PurgeTombstones()
		bucketWide = true
		if d, derr := rosmar.VerifDumpAll(w.b1); derr == nil {
			for _, r := range d.Docs {
				if !r.HasValue {
					c.add("C05", "purge-leftover", "PurgeTombstones through a handle that has opened no collection returned %d and left tombstone %s/%s", n, r.Collection, r.Key)
				}
			}
		}
	case "Advance/20":
		vrt.Advance(20 * time.Second)
		if int64(NowSecs())-vrt.Epoch/1e9 >= 50 {
			allExpire = true // the witnesses' own 50 s deadlines have passed
		}
	case "Advance/60":
		vrt.Advance(60 * time.Second)
		allExpire = true // the witnesses' own deadlines (50 s) pass: every bucket expires its own documents
	case "DropA", "DropA/x", "DropA/y":
		h := w.b1
		if op == "DropA/x" {
			h = w.b1x
		} else if op == "DropA/y" {
			h = w.b1y
		}
		err = h.DropDataStore(NameA)
		w.aDropped = true
	case "RecreateA", "RecreateA/x":
		if !w.aDropped {
			return "skip", nil
		}
		h := w.b1
		if op == "RecreateA/x" {
			h = w.b1x
		}
		w.a = coll(h, NameA)
		w.aDropped = false
		w.oldFeeds = append(w.oldFeeds, w.fa)
		w.fa, err = StartLiveFeed(w.a, "fa")
		// a re-created collection is empty
		if n := queryString(w.a, `SELECT count(*) AS n FROM $_keyspace`, nil); n != `{"n":0}` {
			c.add("C11", "recreate-not-empty", "re-created collection has documents: %s", n)
		}
		if dd, _ := w.a.GetDDocs(); len(dd) != 0 {
			c.add("C11", "recreate-not-empty", "re-created collection has design documents: %v", dd)
		}
	case "Lookup/other":
		// every handle reaches the current incarnation, whatever it had cached (an operation of its own:
		// looking the collection up refreshes that handle's cache, which later steps may depend on)
		for _, h := range []*rosmar.Bucket{w.b1, w.b1x} {
			oc := coll(h, NameA)
			if oc.GetCollectionID() != w.a.GetCollectionID() {
				c.add("C11", "recreate-stale-handle", "an open handle resolves sc.A to collection id %d, the collection now has id %d", oc.GetCollectionID(), w.a.GetCollectionID())
			} else if a, b := queryString(oc, `SELECT count(*) AS n FROM $_keyspace`, nil), queryString(w.a, `SELECT count(*) AS n FROM $_keyspace`, nil); a != b {
				c.add("C11", "recreate-stale-handle", "sc.A counts %s documents through one handle and %s through another", a, b)
			}
		}
	case "CreateExisting/y":
		// "make sure my collections exist" through a handle that has not opened them: whatever it answers,
		// that handle must afterwards reach the very collection the others use
		cerr := w.b1y.CreateDataStore(ctx, NameA)
		yc, lerr := w.b1y.NamedDataStore(NameA)
		if lerr != nil {
			c.add("C11", "create-existing", "after CreateDataStore(existing) = %v the handle cannot open the collection: %v", cerr, lerr)
			break
		}
		y := yc.(*rosmar.Collection)
		if y.GetCollectionID() != w.a.GetCollectionID() {
			c.add("C11", "create-existing", "after CreateDataStore(existing) = %v the handle resolves sc.A to collection id %d; it is %d", cerr, y.GetCollectionID(), w.a.GetCollectionID())
		}
		for _, k := range []string{"k", "j", "t"} {
			v1, c1, e1 := y.GetRaw(k)
			v2, c2, e2 := w.a.GetRaw(k)
			if string(v1) != string(v2) || c1 != c2 || ErrClass(e1) != ErrClass(e2) {
				c.add("C11", "create-existing", "after CreateDataStore(existing) = %v key %s reads (%q,%d,%v) through that handle and (%q,%d,%v) through another", cerr, k, v1, c1, e1, v2, c2, e2)
			}
		}
	case "DropB":
		if w.bDropped {
			return "skip", nil
		}
		err = w.b1.DropDataStore(NameB)
		w.bDropped = true
		bucketWide = true
	}
	vrt.Quiesce()
	result := "ok"
	if err != nil {
		result = "err:" + ErrClass(err)
	}
	// ---- the subject after its own drop: everything of it is gone
	if strings.HasPrefix(op, "DropA") {
		d, _ := rosmar.VerifDumpAll(w.b1)
		for _, cr := range d.Collections {
			if cr.Name == "sc.A" {
				c.add("C11", "drop-leftover", "collection sc.A (id %d) is still in the collections table after %s returned %s", cr.ID, op, result)
			}
		}
		for _, r := range d.Docs {
			if r.Collection == "sc.A" || r.Collection == "" {
				c.add("C11", "drop-leftover", "document %s/%s survived DropDataStore(sc.A)", r.Collection, r.Key)
			}
		}
		for _, v := range d.Views {
			if v.Collection == "sc.A" || v.Collection == "" {
				c.add("C11", "drop-leftover", "view %s/%s survived DropDataStore(sc.A)", v.DDoc, v.View)
			}
		}
		if !w.fa.DoneClosed() {
			c.add("C11", "drop-feed", "the feed of the dropped collection is still running")
		}
	}
	// ---- witnesses
	if allExpire {
		w.fb.Take()
		w.fc.Take()
		w.wit = w.observeWitnesses()
		return result, c.out
	}
	if evs := w.fc.Take(); len(evs) != 0 {
		c.add("C11", "witness-feed", "the feed of bucket b2 received %v", evs)
	}
	evsB := w.fb.Take()
	now := w.observeWitnesses()
	if bucketWide {
		// purge / expiry / drop of the witness act on it by definition: accept and re-baseline, but
		// bucket b2 must still be untouched
		if sfx(now) != sfx(w.wit) {
			c.add("C11", "witness-b2", "bucket b2 changed:\n%s\n->\n%s", sfx(w.wit), sfx(now))
		}
	} else {
		if len(evsB) != 0 {
			c.add("C11", "witness-feed", "the feed of collection sc.B received %v", evsB)
		}
		if now != w.wit {
			c.add("C11", "witness", "witness collections changed: %s", firstDiff(w.wit, now))
		}
	}
	w.wit = now
	return result, c.out
}

func sfx(s string) string {
	if i := strings.Index(s, "\n--b2--\n"); i >= 0 {
		return s[i:]
	}
	return s
}

func firstDiff(a, b string) string {
	i := 0
	for i < len(a) && i < len(b) && a[i] == b[i] {
		i++
	}
	lo := i - 80
	if lo < 0 {
		lo = 0
	}
	ha, hb := i+120, i+120
	if ha > len(a) {
		ha = len(a)
	}
	if hb > len(b) {
		hb = len(b)
	}
	return fmt.Sprintf("...%s  =>  ...%s", a[lo:ha], b[lo:hb])
}

func (w *IsoWorld) Canon() string {
	d, err := rosmar.VerifDumpAll(w.b1)
	if err != nil {
		return "?"
	}
	now := NowSecs()
	var parts []string
	for _, r := range d.Docs {
		if r.Collection != "sc.A" {
			continue
		}
		rel := int64(0)
		if r.Exp != 0 {
			rel = int64(r.Exp) - int64(now)
		}
		parts = append(parts, fmt.Sprintf("%s:%q/%v x=%q exp=%d", r.Key, r.Value, r.HasValue, r.Xattrs, rel))
	}
	sort.Strings(parts)
	var views []string
	for _, v := range d.Views {
		if v.Collection == "sc.A" {
			views = append(views, fmt.Sprintf("%s/%s:%d:%d", v.DDoc, v.View, len(v.MapFn), len(v.Mapped)))
		}
	}
	wits := 0
	for _, r := range d.Docs {
		if r.Collection == "sc.B" {
			wits++
		}
	}
	return fmt.Sprintf("A=%v views=%v dropA=%v dropB=%v witB=%d now=%d index=%v caches=%s/%s", parts, views, w.aDropped, w.bDropped, wits, now-uint32(vrt.Epoch/1e9), w.hasIndex, CacheState(w.b1), CacheState(w.b1x))
}

func (w *IsoWorld) Close() {
	for _, f := range append([]*FeedRec{w.fa, w.fb, w.fc}, w.oldFeeds...) {
		f.CloseTerm()
	}
	vrt.Quiesce()
	_ = w.b1.CloseAndDelete(ctx)
	_ = w.b2.CloseAndDelete(ctx)
	vrt.Quiesce()
}
