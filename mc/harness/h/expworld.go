package h

import (
	"fmt"
	"strings"
	"time"

	sgbucket "github.com/couchbase/sg-bucket"
	"github.com/couchbaselabs/rosmar"
	"github.com/couchbaselabs/rosmar/vrt"
)

// ExpWorld: expiry (C14). Keys A/k, A/j, B/k; every expiry-carrying entry point x {0, +10, +30,
// absolute now+20}; touches, PreserveExpiry, deletes; clock advances; reopen (on disk).
// The virtual clock decides the logic; after every clock advance the world only waits for
// quiescence (no client call) before it looks at the feeds.

type expDoc struct {
	live bool
	exp  uint32
}

type ExpWorld struct {
	cfg   Config
	h     *rosmar.Bucket
	a, b  *rosmar.Collection
	fa    *FeedRec
	fb    *FeedRec
	docs  map[string]*expDoc // "A/k"
	step  int
}

const slackSecs = 5 // "within a few seconds after T"

func init() {
	RegisterWorld("expiry", func(cfg Config) GenWorld {
		w := &ExpWorld{cfg: cfg, docs: map[string]*expDoc{"A/k": {}, "A/j": {}, "B/k": {}}}
		w.open(rosmar.CreateOrOpen)
		// warm-up: one expiry sweep has already run (a document in each collection expired), so every
		// lazily filled cache the sweep uses is in the state it has in a bucket that has lived a while
		must(w.a.SetRaw("w", 1, nil, []byte("0")))
		must(w.b.SetRaw("w", 1, nil, []byte("0")))
		vrt.Advance(5 * time.Second)
		vrt.Quiesce()
		w.fa.Take()
		w.fb.Take()
		return w
	})
}

func (w *ExpWorld) open(mode rosmar.OpenMode) {
	b, err := rosmar.OpenBucket(BucketURL(w.cfg, "b1"), "b1", mode)
	must(err)
	w.h = b
	w.a, w.b = coll(b, NameA), coll(b, NameB)
	w.fa, err = StartLiveFeed(w.a, "fa")
	must(err)
	w.fb, err = StartLiveFeed(w.b, "fb")
	must(err)
}

func (w *ExpWorld) Bucket() *rosmar.Bucket { return w.h }

func (w *ExpWorld) Alphabet(tier int) []string {
	var ops []string
	exps := []string{"0", "r10", "r30", "a20"}
	ops = append(ops, "set/r30d") // exactly 30 days: still an offset
	for _, ep := range []string{"set", "add", "wcas", "incr", "wwx", "swm"} {
		for _, e := range exps {
			if tier == 0 && (ep == "add" || ep == "incr" || ep == "swm") && (e == "a20" || e == "0") {
				continue
			}
			ops = append(ops, ep+"/"+e)
		}
	}
	for _, e := range exps {
		ops = append(ops, "touch/"+e)
	}
	if tier > 0 {
		ops = append(ops, "uxe/r10", "upd/r10", "upd/0", "wux/r10", "res/r30", "dwx", "wtx", "updonly/r10")
	}
	ops = append(ops, "setp", "wwxp", "uxp", "del", "j.set/r10", "j.set/r30", "b.set/r10", "b.set/r30", "b.touch/0", "adv/5", "adv/15", "adv/40")
	ops = append(ops, "b.drs/r10") // drop collection B, create it again, write B/k with an expiry
	// every handle closed and the bucket opened again (an in-memory bucket lives on in the registry until it
	// is deleted); "reopen/20": 20 s pass while it is closed, so deadlines fall due with nobody watching
	ops = append(ops, "reopen", "reopen/20")
	return ops
}

func expArg(e string) uint32 {
	switch e {
	case "r10":
		return 10
	case "r30":
		return 30
	case "r30d":
		return 30 * 24 * 3600
	case "a20":
		return NowSecs() + 20
	}
	return 0
}

func (w *ExpWorld) row(key string) *rosmar.VerifDocRow {
	d, err := rosmar.VerifDumpAll(w.h)
	must(err)
	cn := "sc." + key[:1]
	return rowsOf(d)[cn+"/"+key[2:]]
}

func (w *ExpWorld) Apply(op string) (string, []Violation) {
	w.step++
	c := &checker{op: op, pre: "expiry"}
	now := NowSecs()
	target, cl := "A/k", w.a
	name := op
	if strings.HasPrefix(op, "j.") {
		target, name = "A/j", op[2:]
	} else if strings.HasPrefix(op, "b.") {
		target, cl, name = "B/k", w.b, op[2:]
	}
	key := target[2:]
	parts := strings.Split(name, "/")
	doc := w.docs[target]
	pre := w.row(target)
	var cur uint64
	if pre != nil {
		cur = pre.Cas
	}
	var err error
	refused := false
	wantExp := func(e string) uint32 { return AbsExp(expArg(e), now) }
	var newExp *uint32
	keep := false
	switch parts[0] {
	case "set":
		err = cl.Set(key, expArg(parts[1]), nil, []byte("5"))
		e := wantExp(parts[1])
		newExp = &e
	case "add":
		var added bool
		added, err = cl.Add(key, expArg(parts[1]), []byte("5"))
		refused = !added
		e := wantExp(parts[1])
		newExp = &e
	case "wcas":
		_, err = cl.WriteCas(key, expArg(parts[1]), cur, []byte("6"), 0)
		e := wantExp(parts[1])
		newExp = &e
	case "incr":
		_, err = cl.Incr(key, 1, 1, expArg(parts[1]))
		e := wantExp(parts[1])
		newExp = &e
	case "wwx":
		_, err = cl.WriteWithXattrs(ctx, key, expArg(parts[1]), cur, []byte("7"), map[string][]byte{"_s": []byte(`{"a":1}`)}, nil, nil)
		e := wantExp(parts[1])
		newExp = &e
	case "swm":
		e := wantExp(parts[1]) // WithMeta takes absolute expiries
		err = cl.SetWithMeta(ctx, key, cur, cur+0x10000, e, nil, []byte("8"), sgbucket.FeedDataTypeJSON)
		newExp = &e
	case "uxe":
		_, err = cl.UpdateXattrs(ctx, key, expArg(parts[1]), cur, map[string][]byte{"_t": []byte(`{"a":4}`)}, nil)
		e := wantExp(parts[1])
		newExp = &e
	case "upd":
		ea := expArg(parts[1])
		_, err = cl.Update(key, 0, func([]byte) ([]byte, *uint32, bool, error) { return []byte("11"), &ea, false, nil })
		e := wantExp(parts[1])
		newExp = &e
	case "updonly":
		ea := expArg(parts[1])
		_, err = cl.Update(key, 0, func([]byte) ([]byte, *uint32, bool, error) { return nil, &ea, false, nil })
		e := wantExp(parts[1])
		newExp = &e
	case "wux":
		ea := expArg(parts[1])
		_, err = cl.WriteUpdateWithXattrs(ctx, key, []string{"_s"}, 0, nil, &sgbucket.MutateInOptions{}, func(doc []byte, x map[string][]byte, cas uint64) (sgbucket.UpdatedDoc, error) {
			return sgbucket.UpdatedDoc{Doc: []byte("12"), Xattrs: map[string][]byte{"_s": []byte(`{"a":5}`)}, Expiry: &ea}, nil
		})
		e := wantExp(parts[1])
		newExp = &e
	case "res":
		_, err = cl.WriteResurrectionWithXattrs(ctx, key, expArg(parts[1]), []byte("13"), map[string][]byte{"_s": []byte(`{"a":6}`)}, nil)
		e := wantExp(parts[1])
		newExp = &e
	case "dwx":
		err = cl.DeleteWithXattrs(ctx, key, nil)
		z := uint32(0)
		newExp = &z
	case "wtx":
		_, err = cl.WriteTombstoneWithXattrs(ctx, key, 0, cur, map[string][]byte{"_s": []byte(`{"a":7}`)}, nil, false, nil)
		z := uint32(0)
		newExp = &z
	case "touch":
		_, err = cl.Touch(key, expArg(parts[1]))
		e := wantExp(parts[1])
		newExp = &e
	case "setp":
		err = cl.Set(key, 0, &sgbucket.UpsertOptions{PreserveExpiry: true}, []byte("9"))
		keep = doc.live
		if !keep {
			z := uint32(0)
			newExp = &z
			if pre != nil {
				newExp = nil // PreserveExpiry on a tombstone: spec-silent
			}
		}
	case "wwxp":
		_, err = cl.WriteWithXattrs(ctx, key, 0, cur, []byte("10"), map[string][]byte{"_s": []byte(`{"a":2}`)}, nil, &sgbucket.MutateInOptions{PreserveExpiry: true})
		keep = true
	case "uxp":
		_, err = cl.UpdateXattrs(ctx, key, 0, cur, map[string][]byte{"_s": []byte(`{"a":3}`)}, &sgbucket.MutateInOptions{PreserveExpiry: true})
		keep = true
	case "del":
		err = cl.Delete(key)
		z := uint32(0)
		newExp = &z
	case "drs":
		must(w.h.DropDataStore(NameB))
		vrt.Quiesce()
		if !w.fb.DoneClosed() {
			c.add("C11", "drop-feed", "DropDataStore(B) did not end the feed on B")
		}
		w.fb.CloseTerm()
		w.b = coll(w.h, NameB)
		cl = w.b
		var ferr error
		w.fb, ferr = StartLiveFeed(w.b, "fb")
		must(ferr)
		pre, cur = nil, 0
		doc.live, doc.exp = false, 0
		err = cl.Set(key, expArg(parts[1]), nil, []byte("5"))
		e := wantExp(parts[1])
		newExp = &e
	case "adv":
		var n int
		fmt.Sscanf(parts[1], "%d", &n)
		vrt.Advance(time.Duration(n) * time.Second)
	case "reopen":
		w.fa.CloseTerm()
		w.fb.CloseTerm()
		vrt.Quiesce()
		w.h.Close(ctx)
		vrt.Quiesce()
		if len(parts) > 1 {
			vrt.Advance(20 * time.Second)
			vrt.Quiesce()
		}
		if w.cfg.Disk {
			w.open(rosmar.ReOpenExisting)
		} else {
			w.open(rosmar.CreateOrOpen)
		}
	}
	result := "ok"
	if err != nil {
		result = "err:" + ErrClass(err)
	} else if refused {
		result = "refused"
	}
	// ---- no client call from here until the feeds have been looked at
	vrt.Quiesce()
	now = NowSecs()
	post := w.row(target)
	if parts[0] != "adv" && parts[0] != "reopen" {
		if err == nil && !refused {
			if post == nil {
				c.add("C14", "row", "successful %s left no document", op)
			} else {
				doc.live = post.HasValue
				switch {
				case keep:
					if post.Exp != doc.exp {
						c.add("C14", "preserve", "PreserveExpiry write changed the expiry from %d to %d", doc.exp, post.Exp)
					}
				case newExp != nil && !post.HasValue && *newExp != 0 && (parts[0] == "uxe" || parts[0] == "updonly"):
					// an expiry given to a key that ends up without a body means nothing: spec-silent
				case newExp != nil:
					if post.Exp != *newExp {
						c.add("C14", "expiry", "%s stored expiry %d, want %d (now=%d)", op, post.Exp, *newExp, now)
					}
				}
				doc.exp = post.Exp
			}
		} else if rowString(pre) != rowString(post) {
			c.add("C14", "unchanged-on-error", "%s returned %s but the document changed: %s -> %s", op, result, rowString(pre), rowString(post))
		}
	}
	// ---- every document against its deadline
	for name, d := range w.docs {
		r := w.row(name)
		cl, fr := w.a, w.fa
		if name[0] == 'B' {
			cl, fr = w.b, w.fb
		}
		k := name[2:]
		if !d.live {
			continue
		}
		due := d.exp != 0 && now >= d.exp
		mustBeGone := d.exp != 0 && now >= d.exp+slackSecs
		gone := r == nil || !r.HasValue
		switch {
		case !due:
			if gone {
				c.add("C14", "early", "%s expired early or vanished: expiry %d, now %d, row %s", name, d.exp, now, rowString(r))
			} else {
				e, gerr := cl.GetExpiry(ctx, k)
				if gerr != nil || e != d.exp {
					c.add("C14", "getexpiry", "%s GetExpiry=(%d,%v), want %d", name, e, gerr, d.exp)
				}
				if _, _, rerr := cl.GetRaw(k); rerr != nil {
					c.add("C14", "readable", "%s is not readable before its expiry (%d, now %d): %v", name, d.exp, now, rerr)
				}
			}
		case mustBeGone && !gone:
			c.add("C14", "outlived", "%s outlived its expiry: expiry %d, now %d (timers pending %v)", name, d.exp, now, vrt.PendingTimers())
		}
		if gone && due {
			// tombstoned by the sweep: a deletion event must have arrived without any client call
			found := false
			for _, e := range fr.Events {
				if e.Key == k && e.Opcode == "Deletion" && r != nil && e.Cas == r.Cas {
					found = true
				}
			}
			if !found && !strings.HasPrefix(op, "reopen") { // (a sweep that runs while the bucket is being reopened precedes the new feed)
				c.add("C14", "no-event", "%s was expired (row %s) but its feed received no deletion event for it", name, rowString(r))
			}
			if r != nil && r.Exp != 0 {
				c.add("C14", "tombstone-exp", "expired %s still carries expiry %d", name, r.Exp)
			}
			d.live, d.exp = false, 0
		}
	}
	return result, c.out
}

func (w *ExpWorld) Canon() string {
	now := NowSecs()
	var b strings.Builder
	for _, n := range []string{"A/k", "A/j", "B/k"} {
		r := w.row(n)
		if r == nil {
			fmt.Fprintf(&b, "%s:-;", n)
			continue
		}
		rel := int64(0)
		if r.Exp != 0 {
			rel = int64(r.Exp) - int64(now)
		}
		fmt.Fprintf(&b, "%s:%v/%d/x=%v;", n, r.HasValue, rel, r.Xattrs != nil)
	}
	next, has := rosmar.VerifExpiryState(w.h)
	reln := int64(0)
	if next != 0 {
		reln = int64(next) - int64(now)
	}
	var ts []int64
	for _, t := range vrt.PendingTimers() {
		ts = append(ts, (t-vrt.NowNanos())/1e9)
	}
	fmt.Fprintf(&b, "next=%d/%v timers=%v caches=%s", reln, has, ts, CacheState(w.h))
	return b.String()
}

func (w *ExpWorld) Close() {
	w.fa.CloseTerm()
	w.fb.CloseTerm()
	vrt.Quiesce()
	_ = w.h.CloseAndDelete(ctx)
	vrt.Quiesce()
}
