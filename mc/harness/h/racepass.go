package h

import (
	"fmt"
	"strings"
	"sync"
	"time"
)

// RacePassMain is the auxiliary, NON-deciding race pass (DESIGN §6): the cooperative scheduler's
// hand-offs are happens-before edges, so the race detector is blind under it. Here the same
// scenario bodies run free (no scheduler, real goroutines) in a binary built with -race; whatever
// the detector prints is a diagnostic that justifies (or not) "scheduling points only at
// synchronisation operations". It is sampling and never produces a VIOLATION.
func RacePassMain(reps int) {
	names := ScenarioNames("S", "L-", "F-", "B-", "K-", "V-", "T-", "H-writers", "H-blind", "R-WriteCas-", "R-Remove-", "X-")
	runs := 0
	for _, name := range names {
		sc := scenarios[name]
		if sc.NoOpen || sc.Custom != nil {
			continue
		}
		for r := 0; r < reps; r++ {
			func() {
				defer func() {
					if p := recover(); p != nil {
						fmt.Printf("racepass: %s panicked: %v\n", name, p)
					}
				}()
				resetProcess()
				cfg := scenarioCfg(sc)
				if cfg.Disk {
					cfg.Root = NewScratchDir()
					defer removeAll(cfg.Root)
				}
				w := &SWorld{Sc: sc, Root: cfg.Root, Cfg: cfg}
				w.Open(cfg)
				if sc.Feeds {
					f, err := StartLiveFeed(w.A[0], "live")
					must(err)
					w.Feeds = append(w.Feeds, f)
				}
				if sc.Setup != nil {
					sc.Setup(w)
				}
				var wg sync.WaitGroup
				var mu sync.Mutex // ops that register feeds append to w.Feeds
				for ti := range sc.Threads {
					ti := ti
					wg.Add(1)
					go func() {
						defer wg.Done()
						st := &TState{T: ti, Vals: map[string]string{}}
						for _, op := range sc.Threads[ti] {
							if strings.Contains(op.Name, "StartDCPFeed") || strings.Contains(op.Name, "feed run") {
								mu.Lock()
								op.Do(w, st)
								mu.Unlock()
								continue
							}
							op.Do(w, st)
						}
					}()
				}
				wg.Wait()
				time.Sleep(time.Millisecond)
				for _, f := range w.Feeds {
					f.CloseTerm()
				}
				time.Sleep(time.Millisecond)
				if len(w.H) > 0 {
					_ = w.H[0].CloseAndDelete(ctx)
				}
				for _, b := range w.Extra {
					_ = b.CloseAndDelete(ctx)
				}
				runs++
			}()
		}
	}
	fmt.Printf("racepass: %d scenarios x %d repetitions = %d free-running executions\n", len(names), reps, runs)
}
