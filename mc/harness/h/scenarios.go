package h

import (
	"encoding/json"
	"fmt"
	"strconv"
	"strings"

	sgbucket "github.com/couchbase/sg-bucket"
)

// ---- reusable harness operations -----------------------------------------------------------------

func ec(err error) string { return ErrClass(err) }

func opIncr(key string) SOp {
	return SOp{Name: "Incr " + key, Do: func(w *SWorld, st *TState) (string, []uint64) {
		n, err := w.C(st.T).Incr(key, 1, 1, 0)
		return fmt.Sprintf("%d/%s", n, ec(err)), nil
	}}
}

func opGet(key string) SOp {
	return SOp{Name: "GetRaw " + key, Do: func(w *SWorld, st *TState) (string, []uint64) {
		v, cas, err := w.C(st.T).GetRaw(key)
		st.Cas, st.Body = cas, v
		return fmt.Sprintf("%q/%s «0»", v, ec(err)), []uint64{cas}
	}}
}

func opSet(key, body string) SOp {
	return SOp{Name: "Set " + key + "=" + body, Do: func(w *SWorld, st *TState) (string, []uint64) {
		return ec(w.C(st.T).SetRaw(key, 0, nil, []byte(body))), nil
	}}
}

func opSetJSON(key, body string, exp uint32, preserve bool) SOp {
	return SOp{Name: fmt.Sprintf("Set %s=%s exp=%d preserve=%v", key, body, exp, preserve), Do: func(w *SWorld, st *TState) (string, []uint64) {
		var opts *sgbucket.UpsertOptions
		if preserve {
			opts = &sgbucket.UpsertOptions{PreserveExpiry: true}
		}
		return ec(w.C(st.T).Set(key, exp, opts, []byte(body))), nil
	}}
}

func opAdd(key, body string) SOp {
	return SOp{Name: "Add " + key + "=" + body, Do: func(w *SWorld, st *TState) (string, []uint64) {
		added, err := w.C(st.T).AddRaw(key, 0, []byte(body))
		return fmt.Sprintf("added=%v/%s", added, ec(err)), nil
	}}
}

func opDelete(key string) SOp {
	return SOp{Name: "Delete " + key, Do: func(w *SWorld, st *TState) (string, []uint64) {
		return ec(w.C(st.T).Delete(key)), nil
	}}
}

// opUpdateAppend appends tag to the current body through Update's callback.
func opUpdateAppend(key, tag string) SOp {
	return SOp{Name: "Update " + key + "+=" + tag, Do: func(w *SWorld, st *TState) (string, []uint64) {
		cas, err := w.C(st.T).Update(key, 0, func(cur []byte) ([]byte, *uint32, bool, error) {
			st.Shown = append(st.Shown, append([]byte(nil), cur...))
			return append(append([]byte(nil), cur...), tag...), nil, false, nil
		})
		return fmt.Sprintf("%s «0»", ec(err)), []uint64{cas}
	}}
}

// opUpdateExpOnly: the callback leaves the body alone and sets an expiry; the result records the body it was shown last.
func opUpdateExpOnly(key string) SOp {
	return SOp{Name: "Update " + key + " (expiry only)", Do: func(w *SWorld, st *TState) (string, []uint64) {
		var shown []byte
		cas, err := w.C(st.T).Update(key, 0, func(cur []byte) ([]byte, *uint32, bool, error) {
			shown = append([]byte(nil), cur...)
			e := uint32(100)
			return nil, &e, false, nil
		})
		return fmt.Sprintf("%s shown=%q «0»", ec(err), shown), []uint64{cas}
	}}
}

func opWriteCasFromRead(key, body string) SOp {
	return SOp{Name: "WriteCas(read cas) " + key + "=" + body, Do: func(w *SWorld, st *TState) (string, []uint64) {
		cas, err := w.C(st.T).WriteCas(key, 0, st.Cas, []byte(body), sgbucket.Raw)
		return fmt.Sprintf("%s «0»", ec(err)), []uint64{cas}
	}}
}

func opRemoveFromRead(key string) SOp {
	return SOp{Name: "Remove(read cas) " + key, Do: func(w *SWorld, st *TState) (string, []uint64) {
		cas, err := w.C(st.T).Remove(key, st.Cas)
		return fmt.Sprintf("%s «0»", ec(err)), []uint64{cas}
	}}
}

func opSetXattr(key, name, val string) SOp {
	return SOp{Name: "SetXattrs " + key + "." + name, Do: func(w *SWorld, st *TState) (string, []uint64) {
		cas, err := w.C(st.T).SetXattrs(ctx, key, map[string][]byte{name: []byte(val)})
		return fmt.Sprintf("%s «0»", ec(err)), []uint64{cas}
	}}
}

// opWUXCounter increments {"n":N} in xattr name through WriteUpdateWithXattrs.
func opWUXCounter(key, name string) SOp {
	return SOp{Name: "WriteUpdateWithXattrs " + key + "." + name + "++", Do: func(w *SWorld, st *TState) (string, []uint64) {
		cas, err := w.C(st.T).WriteUpdateWithXattrs(ctx, key, []string{name}, 0, nil, &sgbucket.MutateInOptions{}, func(doc []byte, xattrs map[string][]byte, cas uint64) (sgbucket.UpdatedDoc, error) {
			var cur struct {
				N int `json:"n"`
			}
			_ = json.Unmarshal(xattrs[name], &cur)
			return sgbucket.UpdatedDoc{Doc: doc, Xattrs: map[string][]byte{name: []byte(fmt.Sprintf(`{"n":%d}`, cur.N+1))}}, nil
		})
		return fmt.Sprintf("%s «0»", ec(err)), []uint64{cas}
	}}
}

// opWUXShown writes body+xattr through WriteUpdateWithXattrs and reports what its (last) callback invocation was shown.
func opWUXShown(key string) SOp {
	return SOp{Name: "WriteUpdateWithXattrs " + key + " (reports what it was shown)", Do: func(w *SWorld, st *TState) (string, []uint64) {
		var shownCas uint64
		var shownBody []byte
		cas, err := w.C(st.T).WriteUpdateWithXattrs(ctx, key, []string{"_s"}, 0, nil, &sgbucket.MutateInOptions{}, func(doc []byte, xattrs map[string][]byte, cas uint64) (sgbucket.UpdatedDoc, error) {
			shownCas, shownBody = cas, append([]byte(nil), doc...)
			return sgbucket.UpdatedDoc{Doc: []byte(`{"w":1}`), Xattrs: map[string][]byte{"_s": []byte(`{"n":1}`)}}, nil
		})
		return fmt.Sprintf("%s «0» shown=%q/«1»", ec(err), shownBody), []uint64{cas, shownCas}
	}}
}

func opGetWithXattrs(key string) SOp {
	return SOp{Name: "GetWithXattrs " + key, Do: func(w *SWorld, st *TState) (string, []uint64) {
		v, xs, cas, err := w.C(st.T).GetWithXattrs(ctx, key, RealXNames)
		st.Cas = cas
		return fmt.Sprintf("%q %s/%s «0»", v, fmtX(xmap(xs)), ec(err)), []uint64{cas}
	}}
}

func opWriteSubDoc(key, path, val string, useReadCas bool) SOp {
	return SOp{Name: fmt.Sprintf("WriteSubDoc %s.%s=%s cas=%v", key, path, val, useReadCas), Do: func(w *SWorld, st *TState) (string, []uint64) {
		var cas uint64
		if useReadCas {
			cas = st.Cas
		}
		out, err := w.C(st.T).WriteSubDoc(ctx, key, path, cas, []byte(val))
		return fmt.Sprintf("%s «0»", ec(err)), []uint64{out}
	}}
}

func opSubdocInsert(key, path string, val any) SOp {
	return SOp{Name: fmt.Sprintf("SubdocInsert %s.%s", key, path), Do: func(w *SWorld, st *TState) (string, []uint64) {
		return ec(w.C(st.T).SubdocInsert(ctx, key, path, 0, val)), nil
	}}
}

func opTouch(key string, exp uint32) SOp {
	return SOp{Name: fmt.Sprintf("Touch %s %d", key, exp), Do: func(w *SWorld, st *TState) (string, []uint64) {
		_, err := w.C(st.T).Touch(key, exp)
		return ec(err), nil
	}}
}

func opGetExpiry(key string) SOp {
	return SOp{Name: "GetExpiry " + key, Do: func(w *SWorld, st *TState) (string, []uint64) {
		e, err := w.C(st.T).GetExpiry(ctx, key)
		return fmt.Sprintf("%d/%s", e, ec(err)), nil
	}}
}

func setupSet(key, body string) func(w *SWorld) {
	return func(w *SWorld) { must(w.A[0].SetRaw(key, 0, nil, []byte(body))) }
}

// variants registers sc once per (store, handles) configuration.
func variants(base Scenario, handles ...int) {
	for _, disk := range []bool{false, true} {
		for _, h := range handles {
			sc := base
			sc.Disk, sc.Handles = disk, h
			sc.Name = fmt.Sprintf("%s/%s/h%d", base.Name, ifs(disk, "disk", "mem"), h)
			c := sc
			RegisterScenario(&c)
		}
	}
}

func init() {
	lin := []string{"C03"}
	variants(Scenario{Name: "S1-incr-get", Prop: lin, Lin: true,
		Threads: [][]SOp{{opIncr("k"), opIncr("k")}, {opIncr("k")}, {opGet("k"), opGet("k")}},
		Check: func(w *SWorld, ops []OpRec, final string) []Violation {
			// direct consequence: the counter equals the number of successful increments
			okIncr := 0
			for _, o := range ops {
				if strings.HasPrefix(o.Name, "Incr") && strings.HasSuffix(o.Out, "/") {
					okIncr++
				}
			}
			v, _, err := w.A[0].GetRaw("k")
			n, _ := strconv.Atoi(string(v))
			if err != nil || n != okIncr {
				return []Violation{{Prop: "C03", Op: "S1-incr-get", Pre: "sched", Field: "lost-increment", Detail: fmt.Sprintf("%d successful Incr calls but the counter is %q (%v)", okIncr, v, err)}}
			}
			return nil
		}}, 1, 2)
	variants(Scenario{Name: "S2-update-update-set", Prop: lin, Lin: true, Setup: setupSet("k", "s"),
		Threads: [][]SOp{{opUpdateAppend("k", "a")}, {opUpdateAppend("k", "b")}, {opSet("k", "S")}}}, 1, 2)
	variants(Scenario{Name: "S3-add-add-delete", Prop: lin, Lin: true,
		Threads: [][]SOp{{opAdd("k", "a1")}, {opAdd("k", "a2"), opGet("k")}, {opDelete("k")}}}, 1, 2)
	variants(Scenario{Name: "S4-wux-wux-setxattr", Prop: lin, Lin: true, Setup: setupSet("k", `{"d":1}`),
		Threads: [][]SOp{{opWUXCounter("k", "_s")}, {opWUXCounter("k", "_s")}, {opSetXattr("k", "u", `{"u":1}`)}}}, 1, 2)
	variants(Scenario{Name: "S5-set-remove-getx", Prop: lin, Lin: true, Setup: setupSet("k", "s0"),
		Threads: [][]SOp{{opSet("k", "s1")}, {opGet("k"), opRemoveFromRead("k")}, {opGetWithXattrs("k")}}}, 1, 2)
	variants(Scenario{Name: "S6-subdoc", Prop: []string{"C03", "C18"}, Lin: true, Setup: setupSet("k", `{"z":0}`),
		Threads: [][]SOp{{opWriteSubDoc("k", "a", "1", false)}, {opWriteSubDoc("k", "b", "2", false)}, {opSubdocInsert("k", "c", 3)}}}, 1, 2)
	variants(Scenario{Name: "S7-touch-preserve-expiry", Prop: []string{"C03", "C14"}, Lin: true,
		Setup:   func(w *SWorld) { must(w.A[0].Set("k", 10, nil, []byte(`{"v":0}`))) },
		Threads: [][]SOp{{opTouch("k", 30)}, {opSetJSON("k", `{"v":1}`, 0, true)}, {opGetExpiry("k")}}}, 1, 2)
	// Update whose callback only changes the expiry, against a blind writer; the operation reports what its callback was shown
	variants(Scenario{Name: "S10-update-exponly-set", Prop: lin, Lin: true, Setup: setupSet("k", "s0"),
		Threads: [][]SOp{{opUpdateExpOnly("k")}, {opSet("k", "s1")}, {opGetExpiry("k")}}}, 1, 2)
	// WriteUpdateWithXattrs on a key that does not exist yet, against a creator and a deleter; the result records the CAS the callback was shown
	variants(Scenario{Name: "S11-wux-absent-add-delete", Prop: lin, Lin: true,
		Threads: [][]SOp{{opWUXShown("k")}, {opAdd("k", `{"a":1}`), opDelete("k")}}}, 1, 2)
	// deeper drivers for the thorough tier: three operations per thread
	variants(Scenario{Name: "S9-incr-get-deep", Prop: lin, Lin: true, ThoroughOnly: true,
		Threads: [][]SOp{{opIncr("k"), opIncr("k"), opGet("k")}, {opIncr("k"), opGet("k"), opIncr("k")}, {opGet("k"), opGet("k")}}}, 1, 2)
	variants(Scenario{Name: "S9-update-set-delete-deep", Prop: lin, Lin: true, ThoroughOnly: true, Setup: setupSet("k", "s"),
		Threads: [][]SOp{{opUpdateAppend("k", "a"), opUpdateAppend("k", "b")}, {opSet("k", "S"), opDelete("k"), opAdd("k", "n")}, {opGet("k"), opUpdateAppend("k", "c")}}}, 1, 2)
	variants(Scenario{Name: "S9-xattr-body-deep", Prop: lin, Lin: true, ThoroughOnly: true, Setup: setupSet("k", `{"d":1}`),
		Threads: [][]SOp{{opWUXCounter("k", "_s"), opGetWithXattrs("k")}, {opSetXattr("k", "u", `{"u":1}`), opWUXCounter("k", "_s")}, {opSetJSON("k", `{"d":2}`, 0, false), opDelete("k")}}}, 1, 2)
	variants(Scenario{Name: "S8-three-handles", Prop: lin, Lin: true,
		Threads: [][]SOp{{opIncr("k"), opSet("k", "7")}, {opIncr("k")}, {opGet("k"), opGet("k")}}}, 3)
}
