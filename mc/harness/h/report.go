package h

import (
	"crypto/sha1"
	"encoding/json"
	"fmt"
	"os"
	"path/filepath"
	"sort"
	"strconv"
	"strings"
	"time"
)

// Known findings (read-only at run time) ----------------------------------------------------------

type Finding struct {
	Property  string `json:"property"`
	Signature string `json:"signature"` // exact signature, or a pattern with * wildcards
	What      string `json:"what"`
}

type KnownFindings struct {
	Findings []Finding `json:"findings"`
	Fixed    []string  `json:"fixed"`
}

func VerifDir() string {
	if d := os.Getenv("VERIF_DIR"); d != "" {
		return d
	}
	return "/verif"
}

func LoadKnown() KnownFindings {
	var k KnownFindings
	path := os.Getenv("VERIF_KNOWN")
	if path == "" {
		path = filepath.Join(VerifDir(), "known_findings.json")
	}
	b, err := os.ReadFile(path)
	if err == nil {
		_ = json.Unmarshal(b, &k)
	}
	return k
}

func wildMatch(pat, s string) bool {
	if !strings.Contains(pat, "*") {
		return pat == s
	}
	parts := strings.Split(pat, "*")
	if !strings.HasPrefix(s, parts[0]) {
		return false
	}
	s = s[len(parts[0]):]
	for i := 1; i < len(parts)-1; i++ {
		j := strings.Index(s, parts[i])
		if j < 0 {
			return false
		}
		s = s[j+len(parts[i]):]
	}
	return strings.HasSuffix(s, parts[len(parts)-1])
}

func (k KnownFindings) Match(prop, sig string) *Finding {
	for i := range k.Findings {
		f := &k.Findings[i]
		if f.Property == prop && wildMatch(f.Signature, sig) {
			return f
		}
	}
	return nil
}

// Report accumulates what one check run covered and found -------------------------------------------

type Witness struct {
	Sig    string          `json:"signature"`
	Prop   string          `json:"property"`
	Detail string          `json:"detail"`
	Replay json.RawMessage `json:"replay"` // engine-specific description sufficient to re-execute
	Count  int             `json:"count"`
}

type Report struct {
	Prop        string
	Tier        string
	Seed        int
	Start       time.Time
	States      int
	Transitions int
	Executions  int
	Exhaustive  bool
	Notes       []string
	Samples     []any
	Extra       map[string]any
	Outcomes    map[string]map[string]int // op -> outcome -> count
	Witnesses   map[string]*Witness
	Other       map[string]int // violations of other properties seen (not judged by this run)
	Internal    []string       // internal errors (exit 2)
	Assumptions []string
	Rule        string
}

func NewReport(prop, tier string) *Report {
	seed, _ := strconv.Atoi(os.Getenv("VERIF_SEED"))
	return &Report{Prop: prop, Tier: tier, Seed: seed, Start: time.Now(), Extra: map[string]any{}, Outcomes: map[string]map[string]int{}, Witnesses: map[string]*Witness{}, Other: map[string]int{}, Exhaustive: true}
}

func (r *Report) Outcome(op, outcome string) {
	m := r.Outcomes[op]
	if m == nil {
		m = map[string]int{}
		r.Outcomes[op] = m
	}
	m[outcome]++
}

// AddViolation records v if it belongs to the property under check; returns true if it does.
func (r *Report) AddViolation(v Violation, replay any) bool {
	if v.Prop != r.Prop && r.Prop != "ALL" {
		r.Other[v.Prop]++
		return false
	}
	sig := v.Sig()
	if w := r.Witnesses[sig]; w != nil {
		w.Count++
		return true
	}
	rb, _ := json.Marshal(replay)
	r.Witnesses[sig] = &Witness{Sig: sig, Prop: v.Prop, Detail: v.Detail, Replay: rb, Count: 1}
	return true
}

func (r *Report) AddSample(s any) {
	if len(r.Samples) < 6 {
		r.Samples = append(r.Samples, s)
	}
}

// Finish prints KNOWN-FINDING / VIOLATION lines, writes evidence and replay artefacts, returns the exit code.
func (r *Report) Finish() int {
	known := LoadKnown()
	wall := time.Since(r.Start).Seconds()
	sigs := make([]string, 0, len(r.Witnesses))
	for s := range r.Witnesses {
		sigs = append(sigs, s)
	}
	sort.Strings(sigs)
	nViol, nKnown := 0, 0
	knownPrinted := map[string]bool{}
	var violLines []string
	for _, s := range sigs {
		w := r.Witnesses[s]
		if f := known.Match(r.Prop, s); f != nil {
			nKnown++
			if !knownPrinted[f.Signature] {
				knownPrinted[f.Signature] = true
				fmt.Printf("KNOWN-FINDING: property=%s %s [%s]\n", r.Prop, f.What, f.Signature)
			}
			continue
		}
		nViol++
		dir := filepath.Join(VerifDir(), "replays", r.Prop)
		_ = os.MkdirAll(dir, 0o755)
		h := sha1.Sum([]byte(s))
		path := filepath.Join(dir, fmt.Sprintf("%x.json", h[:6]))
		b, _ := json.MarshalIndent(w, "", " ")
		_ = os.WriteFile(path, b, 0o644)
		violLines = append(violLines, fmt.Sprintf("VIOLATION property=%s replay=%s", r.Prop, path))
		fmt.Printf("  signature: %s\n  detail: %s\n", s, w.Detail)
	}
	outcomes := 0
	for _, m := range r.Outcomes {
		outcomes += len(m)
	}
	cov := map[string]any{
		"states":                        r.States,
		"transitions":                   r.Transitions,
		"traces_validated_against_impl": r.Transitions,
		"samples":                       r.Samples,
		"exhaustive":                    r.Exhaustive && len(r.Internal) == 0,
		"executions":                    r.Executions,
		"distinct_outcomes":             outcomes,
		"known_findings_hit":            nKnown,
		"other_property_violations_seen": r.Other,
		"notes":                         r.Notes,
		"rule":                          r.Rule,
	}
	for k, v := range r.Extra {
		cov[k] = v
	}
	if len(r.Samples) == 0 {
		cov["samples"] = []any{"(no sample recorded)"}
	}
	ev := map[string]any{
		"property_id": r.Prop,
		"tier":        r.Tier,
		"seed":        r.Seed,
		"level":       "model_checking",
		"coverage":    cov,
		"assumptions": r.Assumptions,
		"wall_s":      wall,
		"violations":  nViol,
	}
	_ = os.MkdirAll(filepath.Join(VerifDir(), "evidence"), 0o755)
	b, _ := json.MarshalIndent(ev, "", " ")
	_ = os.WriteFile(filepath.Join(VerifDir(), "evidence", r.Prop+".json"), b, 0o644)
	fmt.Printf("%s %s: states=%d transitions=%d executions=%d outcomes=%d known=%d violations=%d exhaustive=%v wall=%.1fs\n",
		r.Prop, r.Tier, r.States, r.Transitions, r.Executions, outcomes, nKnown, nViol, cov["exhaustive"], wall)
	if len(r.Internal) > 0 {
		for _, e := range r.Internal {
			fmt.Fprintf(os.Stderr, "INTERNAL: %s\n", e)
		}
		return 2
	}
	for _, l := range violLines {
		fmt.Println(l)
	}
	if nViol > 0 {
		return 1
	}
	return 0
}
