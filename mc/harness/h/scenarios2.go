package h

import (
	"encoding/json"
	"fmt"
	"sort"
	"strings"

	sgbucket "github.com/couchbase/sg-bucket"
	"github.com/couchbaselabs/rosmar"
	"github.com/couchbaselabs/rosmar/vrt"
)

// ---- C02(b): racing conditional writers ------------------------------------------------------------

type condWriter struct {
	name string
	do   func(w *SWorld, st *TState) (uint64, error)
}

var condWriters = []condWriter{
	{"WriteCas", func(w *SWorld, st *TState) (uint64, error) {
		return w.C(st.T).WriteCas("k", 0, st.Cas, []byte(fmt.Sprintf(`{"w":%d}`, st.T)), 0)
	}},
	{"Remove", func(w *SWorld, st *TState) (uint64, error) { return w.C(st.T).Remove("k", st.Cas) }},
	{"UpdateXattrs", func(w *SWorld, st *TState) (uint64, error) {
		return w.C(st.T).UpdateXattrs(ctx, "k", 0, st.Cas, map[string][]byte{"_s": []byte(fmt.Sprintf(`{"ux":%d}`, st.T))}, nil)
	}},
	{"WriteWithXattrs", func(w *SWorld, st *TState) (uint64, error) {
		return w.C(st.T).WriteWithXattrs(ctx, "k", 0, st.Cas, []byte(fmt.Sprintf(`{"wwx":%d}`, st.T)), map[string][]byte{"_t": []byte(fmt.Sprintf(`{"t":%d}`, st.T))}, nil, nil)
	}},
	{"WriteSubDoc", func(w *SWorld, st *TState) (uint64, error) {
		return w.C(st.T).WriteSubDoc(ctx, "k", fmt.Sprintf("p%d", st.T), st.Cas, []byte(`1`))
	}},
	{"SetWithMeta", func(w *SWorld, st *TState) (uint64, error) {
		nc := st.Cas + 0x10000*uint64(st.T+1)
		return nc, w.C(st.T).SetWithMeta(ctx, "k", st.Cas, nc, 0, nil, []byte(fmt.Sprintf(`{"swm":%d}`, st.T)), sgbucket.FeedDataTypeJSON)
	}},
	{"WriteTombstoneWithXattrs", func(w *SWorld, st *TState) (uint64, error) {
		return w.C(st.T).WriteTombstoneWithXattrs(ctx, "k", 0, st.Cas, map[string][]byte{"_s": []byte(fmt.Sprintf(`{"tomb":%d}`, st.T))}, nil, false, nil)
	}},
	{"RemoveXattrs", func(w *SWorld, st *TState) (uint64, error) {
		return 0, w.C(st.T).RemoveXattrs(ctx, "k", []string{"_s"}, st.Cas)
	}},
}

func opCond(cw condWriter) SOp {
	return SOp{Name: cw.name + "(read cas)", Do: func(w *SWorld, st *TState) (string, []uint64) {
		cas, err := cw.do(w, st)
		if err != nil {
			cas = 0
		}
		return fmt.Sprintf("%s «0» read=«1»", ec(err), ), []uint64{cas, st.Cas}
	}}
}

func setupDocWithXattr(w *SWorld) {
	_, err := w.A[0].WriteWithXattrs(ctx, "k", 0, 0, []byte(`{"v":0}`), map[string][]byte{"_s": []byte(`{"s":0}`), "u": []byte(`{"u":0}`)}, nil, nil)
	must(err)
}

func checkOneWinner(name string) func(w *SWorld, ops []OpRec, final string) []Violation {
	return func(w *SWorld, ops []OpRec, final string) []Violation {
		type wr struct {
			read uint64
			ok   bool
		}
		var ws []wr
		for _, o := range ops {
			if strings.HasSuffix(o.Name, "(read cas)") && len(o.Cas) == 2 {
				ws = append(ws, wr{o.Cas[1], strings.HasPrefix(o.Out, " ")})
			}
		}
		for i := 0; i < len(ws); i++ {
			for j := i + 1; j < len(ws); j++ {
				if ws[i].ok && ws[j].ok && ws[i].read == ws[j].read {
					return []Violation{{Prop: "C02", Op: name, Pre: "sched", Field: "both-succeeded", Detail: fmt.Sprintf("two conditional writers that both read CAS %d both succeeded", ws[i].read)}}
				}
			}
		}
		return nil
	}
}

func init() {
	for i, a := range condWriters {
		for j := i; j < len(condWriters); j++ {
			b := condWriters[j]
			name := "R-" + a.name + "-" + b.name
			variants(Scenario{Name: name, Prop: []string{"C02"}, Lin: true, Setup: setupDocWithXattr,
				Threads: [][]SOp{{opGet("k"), opCond(a)}, {opGet("k"), opCond(b)}},
				Check:   checkOneWinner(name)}, 1, 2)
		}
	}
	// retry loops against a blind writer: they may only store on top of the version they were shown
	variants(Scenario{Name: "L-wux-set", Prop: []string{"C02", "C03"}, Lin: true, Setup: setupDocWithXattr,
		Threads: [][]SOp{{opWUXCounter("k", "_s")}, {opSetJSON("k", `{"v":"blind"}`, 0, false)}, {opWUXCounter("k", "_s")}}}, 1, 2)
	variants(Scenario{Name: "L-subdoc-set", Prop: []string{"C02", "C18"}, Lin: true, Setup: setupSet("k", `{"z":0}`),
		Threads: [][]SOp{{opWriteSubDoc("k", "a", "1", false)}, {opSetJSON("k", `{"v":"blind"}`, 0, false)}, {opGet("k"), opWriteSubDoc("k", "b", "2", true)}}}, 1, 2)
	variants(Scenario{Name: "L-update-delete", Prop: []string{"C02", "C03"}, Lin: true, Setup: setupSet("k", "s"),
		Threads: [][]SOp{{opUpdateAppend("k", "a")}, {opDelete("k")}, {opAdd("k", "n")}}}, 1, 2)
}

// ---- C08(b) / C09(b) / C15: feeds under concurrent writers ---------------------------------------------

func feedEvents(f *FeedRec, skipPrefix string) []EventObs {
	var out []EventObs
	for _, e := range f.Events {
		if e.Opcode == "BeginBackfill" || e.Opcode == "EndBackfill" {
			continue
		}
		if skipPrefix != "" && strings.HasPrefix(e.Key, skipPrefix) {
			continue
		}
		out = append(out, e)
	}
	return out
}

func opSetRec(key, body string) SOp {
	return SOp{Name: "Set " + key + "=" + body, Do: func(w *SWorld, st *TState) (string, []uint64) {
		err := w.C(st.T).SetRaw(key, 0, nil, []byte(body))
		_, cas, _ := w.C(st.T).GetRaw(key)
		_ = cas
		return ec(err), nil
	}}
}

func opWriteCasBlind(key, body string) SOp {
	// a write whose CAS we learn from the call itself
	return SOp{Name: "Update " + key + "=" + body, Do: func(w *SWorld, st *TState) (string, []uint64) {
		cas, err := w.C(st.T).Update(key, 0, func([]byte) ([]byte, *uint32, bool, error) { return []byte(body), nil, false, nil })
		return fmt.Sprintf("%s «0»", ec(err)), []uint64{cas}
	}}
}

func init() {
	// C08(b): order and completeness of live delivery with writers on different handles
	checkOrder := func(name string) func(w *SWorld, ops []OpRec, final string) []Violation {
		return func(w *SWorld, ops []OpRec, final string) []Violation {
			var vs []Violation
			var want []uint64
			for _, o := range ops {
				if strings.HasPrefix(o.Out, " ") && len(o.Cas) > 0 && o.Cas[0] != 0 {
					want = append(want, o.Cas[0])
				}
			}
			sort.Slice(want, func(i, j int) bool { return want[i] < want[j] })
			for _, f := range w.Feeds {
				evs := feedEvents(f, "")
				var got []uint64
				for i, e := range evs {
					got = append(got, e.Cas)
					if i > 0 && e.Cas <= evs[i-1].Cas {
						vs = append(vs, Violation{Prop: "C08", Op: name, Pre: "sched", Field: "order", Detail: fmt.Sprintf("feed %s received CAS %d after CAS %d", f.Name, e.Cas, evs[i-1].Cas)})
					}
				}
				sorted := append([]uint64(nil), got...)
				sort.Slice(sorted, func(i, j int) bool { return sorted[i] < sorted[j] })
				if fmt.Sprint(sorted) != fmt.Sprint(want) {
					vs = append(vs, Violation{Prop: "C08", Op: name, Pre: "sched", Field: "multiset", Detail: fmt.Sprintf("feed %s received CAS %v for successful mutations %v", f.Name, got, want)})
				}
			}
			return vs
		}
	}
	startFeeds := func(w *SWorld) {
		f1, err := StartLiveFeed(w.A[0], "live")
		must(err)
		f2 := NewFeedRec("keysonly")
		must(w.A[len(w.A)-1].StartDCPFeed(ctx, sgbucket.FeedArguments{ID: "keysonly", Backfill: sgbucket.FeedNoBackfill, KeysOnly: true, Terminator: f2.Term, DoneChan: f2.Done}, f2.callback, nil))
		w.Feeds = append(w.Feeds, f1, f2)
	}
	variants(Scenario{Name: "F-order-2w", Prop: []string{"C08"}, Keys: []string{"k", "j"}, Setup: startFeeds,
		Threads: [][]SOp{{opWriteCasBlind("k", "a1"), opWriteCasBlind("j", "a2")}, {opWriteCasBlind("k", "b1"), opWriteCasBlind("j", "b2")}},
		Check:   checkOrder("F-order-2w")}, 2)
	variants(Scenario{Name: "F-order-3w", Prop: []string{"C08"}, Keys: []string{"k", "j"}, Setup: startFeeds,
		Threads: [][]SOp{{opWriteCasBlind("k", "a1")}, {opWriteCasBlind("j", "b1")}, {opWriteCasBlind("k", "c1")}},
		Check:   checkOrder("F-order-3w")}, 1, 3)

	// a WithMeta write whose CAS is ahead of the clock, against a regular writer: the clock has to absorb
	// the injected CAS atomically with the commit, or a later commit is delivered with a smaller CAS
	opMetaAhead := SOp{Name: "SetWithMeta k (CAS ahead of the clock)", Do: func(w *SWorld, st *TState) (string, []uint64) {
		_, cur, _ := w.C(st.T).GetRaw("k")
		nc := uint64(vrt.Epoch) + 0x4000000
		err := w.C(st.T).SetWithMeta(ctx, "k", cur, nc, 0, nil, []byte(`{"m":1}`), sgbucket.FeedDataTypeJSON)
		if err != nil {
			nc = 0
		}
		return fmt.Sprintf("%s «0»", ec(err)), []uint64{nc}
	}}
	variants(Scenario{Name: "F-order-meta", Prop: []string{"C08"}, Keys: []string{"k", "j"}, Setup: func(w *SWorld) { setupSet("k", "k0")(w); startFeeds(w) },
		Threads: [][]SOp{{opMetaAhead}, {opWriteCasBlind("j", "b1"), opWriteCasBlind("j", "b2")}},
		Check:   checkOrder("F-order-meta")}, 1, 2)

	// C09(b): a feed started with backfill while writers commit must not lose a key's final version
	opStartBackfillLive := SOp{Name: "StartDCPFeed(backfill=0, live)", Do: func(w *SWorld, st *TState) (string, []uint64) {
		f := NewFeedRec("bf+live")
		err := w.C(st.T).StartDCPFeed(ctx, sgbucket.FeedArguments{ID: "bf", Backfill: 0, Terminator: f.Term, DoneChan: f.Done}, f.callback, nil)
		w.Feeds = append(w.Feeds, f)
		return ec(err), nil
	}}
	checkNoGap := func(name string) func(w *SWorld, ops []OpRec, final string) []Violation {
		return func(w *SWorld, ops []OpRec, final string) []Violation {
			d, err := rosmar.VerifDumpAll(w.H[0])
			must(err)
			var vs []Violation
			for _, f := range w.Feeds {
				if f.Name != "bf+live" {
					continue
				}
				seen := map[string]bool{}
				for _, e := range feedEvents(f, "") {
					seen[fmt.Sprintf("%s@%d", e.Key, e.Cas)] = true
				}
				for _, r := range d.Docs {
					if r.Collection == "sc.A" && !seen[fmt.Sprintf("%s@%d", r.Key, r.Cas)] {
						vs = append(vs, Violation{Prop: "C09", Op: name, Pre: "sched", Field: "gap", Detail: fmt.Sprintf("final version of %s (CAS %d) was delivered neither by backfill nor live; feed saw %v", r.Key, r.Cas, feedEvents(f, ""))})
					}
				}
			}
			return vs
		}
	}
	variants(Scenario{Name: "B-start-vs-writer", Prop: []string{"C09"}, Keys: []string{"k", "j"}, Setup: setupSet("j", "j0"),
		Threads: [][]SOp{{opStartBackfillLive}, {opSet("k", "k1"), opSet("j", "j1")}},
		Check:   checkNoGap("B-start-vs-writer")}, 1, 2)
	// two feeds starting at once, then a write: neither registration may be lost
	opStartNamed := func(name string) SOp {
		return SOp{Name: "StartDCPFeed(" + name + ")", Do: func(w *SWorld, st *TState) (string, []uint64) {
			f := NewFeedRec("bf+live")
			f.Name = "bf+live"
			err := w.C(st.T).StartDCPFeed(ctx, sgbucket.FeedArguments{ID: name, Backfill: 0, Terminator: f.Term, DoneChan: f.Done}, f.callback, nil)
			w.Feeds = append(w.Feeds, f)
			return ec(err), nil
		}}
	}
	variants(Scenario{Name: "B-two-starts", Prop: []string{"C09", "C16"}, Keys: []string{"k", "j"}, Setup: setupSet("j", "j0"),
		Threads: [][]SOp{{opStartNamed("f1"), opSet("k", "k1")}, {opStartNamed("f2")}},
		Check:   checkNoGap("B-two-starts")}, 1, 2)
	variants(Scenario{Name: "B-start-vs-2writers", Prop: []string{"C09"}, Keys: []string{"k", "j"}, Setup: setupSet("j", "j0"),
		Threads: [][]SOp{{opStartBackfillLive}, {opSet("k", "k1")}, {opSet("j", "j1"), opDelete("j")}},
		Check:   checkNoGap("B-start-vs-2writers")}, 2)

	// C15: checkpointed resume across stops while writers are active
	runResume := func(dump bool) SOp {
		return SOp{Name: fmt.Sprintf("feed run (resume, dump=%v) then stop", dump), Do: func(w *SWorld, st *TState) (string, []uint64) {
			f := NewFeedRec(fmt.Sprintf("run%d", len(w.Feeds)))
			err := w.C(st.T).StartDCPFeed(ctx, sgbucket.FeedArguments{ID: "cp", Backfill: sgbucket.FeedResume, Dump: dump, CheckpointPrefix: "chk", Terminator: f.Term, DoneChan: f.Done}, f.callback, nil)
			w.Feeds = append(w.Feeds, f)
			if err != nil {
				return ec(err), nil
			}
			if !dump {
				vrt.Yield("let the feed run")
				f.CloseTerm()
			}
			vrt.Recv((<-chan struct{})(f.Done))
			// checkpoint must not exceed what was delivered so far
			var cp struct {
				LastSeq uint64 `json:"last_seq"`
			}
			var maxDelivered uint64
			for _, g := range w.Feeds {
				for _, e := range feedEvents(g, "") {
					if e.Cas > maxDelivered {
						maxDelivered = e.Cas
					}
				}
			}
			if raw, _, err := w.A[0].GetRaw("chk:cp"); err == nil {
				_ = json.Unmarshal(raw, &cp)
			}
			if cp.LastSeq > maxDelivered {
				w.Notes = append(w.Notes, fmt.Sprintf("checkpoint %d exceeds highest delivered CAS %d", cp.LastSeq, maxDelivered))
			}
			return "", nil
		}}
	}
	checkResume := func(name string) func(w *SWorld, ops []OpRec, final string) []Violation {
		return func(w *SWorld, ops []OpRec, final string) []Violation {
			var vs []Violation
			for _, n := range w.Notes {
				vs = append(vs, Violation{Prop: "C15", Op: name, Pre: "sched", Field: "checkpoint-ahead", Detail: n})
			}
			// one last resumed dump after the writers are done
			f := NewFeedRec("final")
			err := w.A[0].StartDCPFeed(ctx, sgbucket.FeedArguments{ID: "cp", Backfill: sgbucket.FeedResume, Dump: true, CheckpointPrefix: "chk", DoneChan: f.Done}, f.callback, nil)
			must(err)
			vrt.Recv((<-chan struct{})(f.Done))
			seen := map[string]bool{}
			var all []string
			for _, g := range append(append([]*FeedRec(nil), w.Feeds...), f) {
				for _, e := range feedEvents(g, "chk:") {
					seen[fmt.Sprintf("%s@%d", e.Key, e.Cas)] = true
					all = append(all, fmt.Sprintf("%s:%s@%d", g.Name, e.Key, e.Cas))
				}
			}
			d, err := rosmar.VerifDumpAll(w.H[0])
			must(err)
			for _, r := range d.Docs {
				if r.Collection == "sc.A" && !strings.HasPrefix(r.Key, "chk:") && !seen[fmt.Sprintf("%s@%d", r.Key, r.Cas)] {
					vs = append(vs, Violation{Prop: "C15", Op: name, Pre: "sched", Field: "skipped", Detail: fmt.Sprintf("final version of %s (CAS %d) was never delivered by any run of the resumed feed; runs delivered %v", r.Key, r.Cas, all)})
				}
			}
			return vs
		}
	}
	variants(Scenario{Name: "K-resume-2runs", Prop: []string{"C15"}, Keys: []string{"k", "j"}, Setup: setupSet("j", "j0"),
		Threads: [][]SOp{{runResume(false), runResume(false)}, {opSet("k", "k1"), opSet("j", "j1")}, {opSet("k", "k2")}},
		Check:   checkResume("K-resume-2runs")}, 1, 2)
	variants(Scenario{Name: "K-resume-dump-live", Prop: []string{"C15"}, Keys: []string{"k", "j"}, Setup: setupSet("j", "j0"),
		Threads: [][]SOp{{runResume(true), runResume(false)}, {opSet("k", "k1")}, {opSet("j", "j1")}},
		Check:   checkResume("K-resume-dump-live")}, 2)
}
