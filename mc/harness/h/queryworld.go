package h

import (
	"encoding/json"
	"fmt"
	"sort"
	"strings"

	sgbucket "github.com/couchbase/sg-bucket"
	"github.com/couchbaselabs/rosmar"
	"github.com/couchbaselabs/rosmar/vrt"
)

// QueryWorld: SQL queries see exactly the live documents of their collection (C19). Collections A
// and B with keys k, j; after every write a family of queries on both collections is compared
// with a Go evaluation over a key-value read-back (documents with a body only).

type QueryWorld struct {
	cfg  Config
	h    *rosmar.Bucket
	h2   *rosmar.Bucket // a second handle: every query is also asked through it
	a, b *rosmar.Collection
	step int
}

func init() {
	RegisterWorld("queries", func(cfg Config) GenWorld {
		w := &QueryWorld{cfg: cfg}
		var err error
		w.h, err = rosmar.OpenBucket(BucketURL(cfg, "b1"), "b1", rosmar.CreateOrOpen)
		must(err)
		w.a, w.b = coll(w.h, NameA), coll(w.h, NameB)
		w.h2, err = rosmar.OpenBucket(BucketURL(cfg, "b1"), "b1", rosmar.CreateOrOpen)
		must(err)
		return w
	})
}

func (w *QueryWorld) Bucket() *rosmar.Bucket { return w.h }

func (w *QueryWorld) Alphabet(tier int) []string {
	ops := []string{"A.Set/k/1", "A.Set/k/2", "A.SetNoV/j", "A.Set/j/1", "B.Set/k/3", "B.Set/j/raw", "A.Delete/k", "A.Delete/j", "B.Delete/k", "A.SetXattrs/k", "B.SetXattrs/j",
		"A.WriteTombstone/k", "A.Add/k", "A.SetRawNil/j", "A.AddRawNil/k", "A.UpdateDelete/k", "A.DeleteWithXattrs/k", "A.Resurrect/k", "Purge", "A.SetWithMeta/j", "A.DeleteWithMeta/j", "A.SetEmpty/j", "DropRecreate/A", "DropRecreate/A/2"}
	if w.cfg.Disk {
		ops = append(ops, "Reopen")
	}
	return ops
}

func (w *QueryWorld) Apply(op string) (string, []Violation) {
	w.step++
	c := &checker{op: op, pre: "queries"}
	cl := w.a
	name := op
	if strings.HasPrefix(op, "B.") {
		cl = w.b
	}
	if strings.Contains(op, ".") {
		name = op[2:]
	}
	parts := strings.Split(name, "/")
	var err error
	cur := func(key string) uint64 {
		d, _ := rosmar.VerifDumpAll(w.h)
		cn := "sc.A/"
		if cl == w.b {
			cn = "sc.B/"
		}
		if r := rowsOf(d)[cn+key]; r != nil {
			return r.Cas
		}
		return 0
	}
	switch parts[0] {
	case "Set":
		if parts[2] == "raw" {
			err = cl.SetRaw(parts[1], 0, nil, []byte("notjson"))
		} else {
			err = cl.Set(parts[1], 0, nil, []byte(fmt.Sprintf(`{"v":%s,"t":"%s"}`, parts[2], parts[1])))
		}
	case "SetNoV":
		err = cl.Set(parts[1], 0, nil, []byte(`{"t":"nov"}`))
	case "SetEmpty":
		err = cl.SetRaw(parts[1], 0, nil, []byte{})
	case "Delete":
		err = cl.Delete(parts[1])
	case "SetXattrs":
		_, err = cl.SetXattrs(ctx, parts[1], map[string][]byte{"_s": []byte(`{"n":5}`)})
	case "WriteTombstone":
		_, err = cl.WriteTombstoneWithXattrs(ctx, "k", 0, cur("k"), map[string][]byte{"_s": []byte(`{"n":9}`)}, nil, false, nil)
	case "Add":
		_, err = cl.Add("k", 0, []byte(`{"v":4,"t":"add"}`))
	case "SetRawNil":
		err = cl.SetRaw(parts[1], 0, nil, nil)
	case "AddRawNil":
		_, err = cl.AddRaw("k", 0, nil)
	case "UpdateDelete":
		_, err = cl.Update("k", 0, func([]byte) ([]byte, *uint32, bool, error) { return nil, nil, true, nil })
	case "DeleteWithXattrs":
		err = cl.DeleteWithXattrs(ctx, "k", nil)
	case "Resurrect":
		_, err = cl.WriteResurrectionWithXattrs(ctx, "k", 0, []byte(`{"v":6,"t":"res"}`), map[string][]byte{"_s": []byte(`{"n":6}`)}, nil)
	case "Purge":
		_, err = w.h.PurgeTombstones()
	case "DropRecreate":
		// through the first handle, or dropped through the second and created again through the first
		dropper := w.h
		if len(parts) > 2 {
			dropper = w.h2
		}
		err = dropper.DropDataStore(NameA)
		w.a = coll(w.h, NameA)
	case "Reopen":
		w.h.Close(ctx)
		w.h2.Close(ctx)
		vrt.Quiesce()
		w.h, err = rosmar.OpenBucket(BucketURL(w.cfg, "b1"), "b1", rosmar.ReOpenExisting)
		must(err)
		w.h2, err = rosmar.OpenBucket(BucketURL(w.cfg, "b1"), "b1", rosmar.ReOpenExisting)
		must(err)
		w.a, w.b = coll(w.h, NameA), coll(w.h, NameB)
	case "SetWithMeta":
		c0 := cur("j")
		err = cl.SetWithMeta(ctx, "j", c0, c0+0x20000+uint64(w.step), 0, []byte(`{"_s":{"n":7}}`), []byte(`{"v":7,"t":"meta"}`), sgbucket.FeedDataTypeJSON)
	case "DeleteWithMeta":
		c0 := cur("j")
		err = cl.DeleteWithMeta(ctx, "j", c0, c0+0x20000+uint64(w.step), 0, []byte(`{"_s":{"n":8}}`))
	}
	vrt.Quiesce()
	result := "ok"
	if err != nil {
		result = "err:" + ErrClass(err)
	}
	w.checkQueries(c, w.a, "sc.A")
	w.checkQueries(c, w.b, "sc.B")
	w.checkQueries(c, coll(w.h2, NameA), "sc.A")
	w.checkQueries(c, coll(w.h2, NameB), "sc.B")
	if n := rosmar.VerifInUse(w.h) + rosmar.VerifInUse(w.h2); n != 0 {
		c.add("C19", "connection-leak", "%d connections still checked out after the query iterators were closed", n)
	}
	return result, c.out
}

// kvDoc is one document as the key-value API reads it back.
type kvDoc struct {
	id     string
	body   []byte
	isJSON bool
	x      map[string]json.RawMessage
}

func (w *QueryWorld) readBack(cl *rosmar.Collection, collName string) []kvDoc {
	d, err := rosmar.VerifDumpAll(w.h)
	must(err)
	var docs []kvDoc
	for _, r := range d.Docs {
		if r.Collection != collName {
			continue
		}
		body, _, err := cl.GetRaw(r.Key) // the KV API decides what "has a body" means
		if err != nil {
			continue
		}
		kd := kvDoc{id: r.Key, body: body}
		_, xs, _, xerr := cl.GetWithXattrs(ctx, r.Key, RealXNames)
		if xerr == nil {
			kd.x = map[string]json.RawMessage{}
			for k, v := range xs {
				kd.x[k] = v
			}
		}
		var tmp any
		kd.isJSON = json.Unmarshal(body, &tmp) == nil && len(body) > 0
		docs = append(docs, kd)
	}
	sort.Slice(docs, func(i, j int) bool { return docs[i].id < docs[j].id })
	return docs
}

func (w *QueryWorld) checkQueries(c *checker, cl *rosmar.Collection, collName string) {
	docs := w.readBack(cl, collName)
	field := func(d kvDoc, name string) (string, bool) {
		var m map[string]json.RawMessage
		if !d.isJSON || json.Unmarshal(d.body, &m) != nil {
			return "", false
		}
		v, ok := m[name]
		return string(v), ok
	}
	// Q1: ids
	var ids []string
	for _, d := range docs {
		ids = append(ids, fmt.Sprintf(`{"id":%s}`, d.id))
	}
	if got := queryString(cl, `SELECT id FROM $_keyspace ORDER BY id`, nil); got != strings.Join(ids, ";") {
		c.add("C19", "ids", "%s: SELECT id returned [%s], the key-value read-back has [%s]", collName, got, strings.Join(ids, ";"))
	}
	// Q2: count
	if got := queryString(cl, `SELECT count(*) AS n FROM $_keyspace`, nil); got != fmt.Sprintf(`{"n":%d}`, len(docs)) {
		c.add("C19", "count", "%s: count(*) returned %s, %d documents have a body", collName, got, len(docs))
	}
	// Q3: filter on a body property (JSON documents only), named argument
	var want []string
	for _, d := range docs {
		if v, ok := field(d, "v"); ok && v == "1" {
			want = append(want, fmt.Sprintf(`{"id":%s}`, d.id))
		}
	}
	if got := queryString(cl, `SELECT id FROM $_keyspace WHERE json_valid(body) AND body->>'v' = $val ORDER BY id`, map[string]any{"val": 1}); got != strings.Join(want, ";") {
		c.add("C19", "body-filter", "%s: filter on body.v=1 returned [%s], want [%s]", collName, got, strings.Join(want, ";"))
	}
	// Q4: filter on an xattr property
	want = nil
	for _, d := range docs {
		var s struct {
			N *int `json:"n"`
		}
		if raw, ok := d.x["_s"]; ok && json.Unmarshal(raw, &s) == nil && s.N != nil && *s.N >= 5 {
			want = append(want, fmt.Sprintf(`{"id":%s}`, d.id))
		}
	}
	if got := queryString(cl, `SELECT id FROM $_keyspace WHERE xattrs->>'$._s.n' >= 5 ORDER BY id`, nil); got != strings.Join(want, ";") {
		c.add("C19", "xattr-filter", "%s: filter on xattrs._s.n>=5 returned [%s], want [%s]", collName, got, strings.Join(want, ";"))
	}
	w.checkDecoded(c, cl, collName, docs)
	// Q5: bodies of JSON documents
	want = nil
	for _, d := range docs {
		if t, ok := field(d, "t"); ok {
			want = append(want, fmt.Sprintf(`{"id":%s,"t":%s}`, d.id, strings.Trim(t, `"`)))
		}
	}
	if got := queryString(cl, `SELECT id, body->>'t' AS t FROM $_keyspace WHERE json_valid(body) AND body->>'t' NOT NULL ORDER BY id`, nil); got != strings.Join(want, ";") {
		c.add("C19", "body-select", "%s: SELECT id, body.t returned [%s], want [%s]", collName, got, strings.Join(want, ";"))
	}
}

// checkDecoded runs a query whose first column may be NULL and reads it through Next() (JSON decoding
// of every row): every JSON document must come back exactly once.
func (w *QueryWorld) checkDecoded(c *checker, cl *rosmar.Collection, collName string, docs []kvDoc) {
	it, err := cl.Query(sgbucket.SQLiteLanguage, `SELECT body->'v' AS v, json_quote(id) AS id FROM $_keyspace WHERE json_valid(body) ORDER BY id`, nil, sgbucket.RequestPlus, false)
	if err != nil {
		c.add("C19", "decoded", "%s: query failed: %v", collName, err)
		return
	}
	var got []string
	for {
		var row map[string]any
		if !it.Next(ctx, &row) {
			break
		}
		v, _ := json.Marshal(row["v"])
		_, hasV := row["v"]
		got = append(got, fmt.Sprintf("%v:%v:%s", row["id"], hasV, v))
	}
	cerr := it.Close()
	var want []string
	for _, d := range docs {
		if !d.isJSON {
			continue
		}
		var m map[string]json.RawMessage
		if json.Unmarshal(d.body, &m) != nil {
			want = append(want, fmt.Sprintf("%s:false:null", d.id)) // JSON but not an object: v is NULL
			continue
		}
		if v, ok := m["v"]; ok {
			var x any
			_ = json.Unmarshal(v, &x)
			vv, _ := json.Marshal(x)
			want = append(want, fmt.Sprintf("%s:true:%s", d.id, vv))
		} else {
			want = append(want, fmt.Sprintf("%s:false:null", d.id))
		}
	}
	if cerr != nil || strings.Join(got, ";") != strings.Join(want, ";") {
		c.add("C19", "decoded", "%s: rows decoded through Next(): [%s] (close: %v), the key-value read-back gives [%s]", collName, strings.Join(got, ";"), cerr, strings.Join(want, ";"))
	}
}

func (w *QueryWorld) Canon() string {
	d, err := rosmar.VerifDumpAll(w.h)
	if err != nil {
		return "?"
	}
	var b strings.Builder
	for _, r := range d.Docs {
		fmt.Fprintf(&b, "%s/%s:%q/%v x=%q tomb=%d;", r.Collection, r.Key, r.Value, r.HasValue, r.Xattrs, r.Tombstone)
	}
	fmt.Fprintf(&b, "caches=%s/%s", CacheState(w.h), CacheState(w.h2))
	return b.String()
}

func (w *QueryWorld) Close() {
	_ = w.h.CloseAndDelete(ctx)
	vrt.Quiesce()
}
