package h

import (
	"fmt"
	"strings"
	"time"

	sgbucket "github.com/couchbase/sg-bucket"
	"github.com/couchbaselabs/rosmar"
	"github.com/couchbaselabs/rosmar/vrt"
)

// ---- C20: shutdown racing with in-flight activity ----------------------------------------------------

// safely runs f and turns a panic on the calling goroutine into a result string (the scheduler records
// panics of background goroutines itself; this catches the ones on harness threads so that the
// scenario can go on to its follow-up checks).
func safely(w *SWorld, what string, f func() error) string {
	var out string
	func() {
		defer func() {
			if r := recover(); r != nil {
				if fmt.Sprintf("%T", r) == "vrt.abortSignal" {
					panic(r)
				}
				w.Notes = append(w.Notes, fmt.Sprintf("%s panicked: %v", what, r))
				out = "PANIC"
			}
		}()
		out = ec(f())
	}()
	return out
}

type shutdownKind struct {
	name string
	do   func(w *SWorld, st *TState) error
}

var shutdowns = []shutdownKind{
	{"Close", func(w *SWorld, st *TState) error { w.H[len(w.H)-1].Close(ctx); return nil }},
	{"CloseAll", func(w *SWorld, st *TState) error {
		for _, h := range w.H {
			h.Close(ctx)
		}
		return nil
	}},
	{"CloseAndDelete", func(w *SWorld, st *TState) error { return w.H[len(w.H)-1].CloseAndDelete(ctx) }},
	{"DropDataStore", func(w *SWorld, st *TState) error { return w.H[len(w.H)-1].DropDataStore(NameA) }},
}

func opShutdown(k shutdownKind) SOp {
	return SOp{Name: k.name, Do: func(w *SWorld, st *TState) (string, []uint64) {
		return safely(w, k.name, func() error { return k.do(w, st) }), nil
	}}
}

func opSafe(name string, f func(w *SWorld, st *TState) error) SOp {
	return SOp{Name: name, Do: func(w *SWorld, st *TState) (string, []uint64) {
		return safely(w, name, func() error { return f(w, st) }), nil
	}}
}

// followUp: after the race, a different bucket and the surviving handles must still be usable
// (no lock left held, no panic); calls on the shut-down store may fail but must return.
func followUp(name string, shutsDown ...bool) func(w *SWorld, ops []OpRec, final string) []Violation {
	return func(w *SWorld, ops []OpRec, final string) []Violation {
		var vs []Violation
		if len(shutsDown) > 0 && shutsDown[0] {
			// the store has been shut down and the world is quiescent: nothing of rosmar's may still be
			// running or waiting, except the helper goroutines parked on terminators the client has not
			// closed yet (R2) - checked BEFORE the teardown closes those terminators
			for _, t := range vrt.LiveThreads() {
				if strings.Contains(t, " in recv ") || strings.Contains(t, "(main)") {
					continue
				}
				vs = append(vs, Violation{Prop: "C20", Op: name, Pre: "sched", Field: "goroutine-after-shutdown", Detail: "after the store was shut down this goroutine is still alive: " + t})
			}
		}
		for _, n := range w.Notes {
			vs = append(vs, Violation{Prop: "C20", Op: name, Pre: "sched", Field: "call-panicked", Detail: n})
		}
		for i, c := range w.A {
			i, c := i, c
			r := safely(w, fmt.Sprintf("follow-up Set through handle %d", i), func() error { return c.SetRaw("after", 0, nil, []byte("x")) })
			if r == "PANIC" {
				vs = append(vs, Violation{Prop: "C20", Op: name, Pre: "sched", Field: "followup-panicked", Detail: w.Notes[len(w.Notes)-1]})
			}
			r = safely(w, fmt.Sprintf("follow-up NamedDataStore through handle %d", i), func() error { _, err := w.H[i].NamedDataStore(NameB); return err })
			if r == "PANIC" {
				vs = append(vs, Violation{Prop: "C20", Op: name, Pre: "sched", Field: "followup-panicked", Detail: w.Notes[len(w.Notes)-1]})
			}
		}
		// whatever timer is still armed fires now: it must not find a closed store
		vrt.Advance(120 * time.Second)
		vrt.Quiesce()
		b2, err := rosmar.OpenBucket(rosmar.InMemoryURL, "other", rosmar.CreateOrOpen)
		if err != nil {
			vs = append(vs, Violation{Prop: "C20", Op: name, Pre: "sched", Field: "other-bucket", Detail: "cannot open another bucket afterwards: " + err.Error()})
			return vs
		}
		c2 := coll(b2, NameA)
		if err := c2.SetRaw("x", 0, nil, []byte("1")); err != nil {
			vs = append(vs, Violation{Prop: "C20", Op: name, Pre: "sched", Field: "other-bucket", Detail: "write to another bucket failed afterwards: " + err.Error()})
		}
		_ = b2.CloseAndDelete(ctx)
		return vs
	}
}

func registerC20(name string, disk bool, handles int, setup func(w *SWorld), activity []SOp, sd shutdownKind) {
	full := fmt.Sprintf("X-%s-vs-%s/%s/h%d", name, sd.name, ifs(disk, "disk", "mem"), handles)
	// does the shutdown call end the store? (deleted, or the last handle of an on-disk bucket closed)
	shuts := sd.name == "CloseAndDelete" || (disk && (sd.name == "CloseAll" || (sd.name == "Close" && handles == 1)))
	RegisterScenario(&Scenario{Name: full, Prop: []string{"C20"}, Disk: disk, Handles: handles, Setup: setup,
		Threads: [][]SOp{activity, {opShutdown(sd)}}, Check: followUp(full, shuts)})
}

func init() {
	writer := []SOp{
		opSafe("Set k", func(w *SWorld, st *TState) error { return w.C(st.T).SetRaw("k", 0, nil, []byte("w1")) }),
		opSafe("Incr n", func(w *SWorld, st *TState) error { _, err := w.C(st.T).Incr("n", 1, 1, 0); return err }),
	}
	feedStart := []SOp{
		opSafe("StartDCPFeed(backfill)", func(w *SWorld, st *TState) error {
			f := NewFeedRec("bf")
			w.Feeds = append(w.Feeds, f)
			return w.C(st.T).StartDCPFeed(ctx, sgbucket.FeedArguments{ID: "bf", Backfill: 0, Terminator: f.Term, DoneChan: f.Done}, f.callback, nil)
		}),
		opSafe("Set k", func(w *SWorld, st *TState) error { return w.C(st.T).SetRaw("k", 0, nil, []byte("w1")) }),
	}
	feedStartLive := []SOp{
		opSafe("StartDCPFeed(no backfill)", func(w *SWorld, st *TState) error {
			f := NewFeedRec("lv")
			w.Feeds = append(w.Feeds, f)
			return w.C(st.T).StartDCPFeed(ctx, sgbucket.FeedArguments{ID: "lv", Backfill: sgbucket.FeedNoBackfill, Terminator: f.Term, DoneChan: f.Done}, f.callback, nil)
		}),
	}
	ddocWriter := []SOp{
		opSafe("PutDDoc", func(w *SWorld, st *TState) error {
			return w.C(st.T).PutDDoc(ctx, "d2", &sgbucket.DesignDoc{Views: sgbucket.ViewMap{"v": sgbucket.ViewDef{Map: `function(doc,meta){emit(meta.id,1)}`}}})
		}),
		opSafe("DeleteDDoc", func(w *SWorld, st *TState) error { return w.C(st.T).DeleteDDoc("d2") }),
	}
	viewSetup := func(w *SWorld) {
		must(w.A[0].PutDDoc(ctx, "dd", &sgbucket.DesignDoc{Views: sgbucket.ViewMap{"v": sgbucket.ViewDef{Map: `function(doc,meta){emit(meta.id,null)}`}}}))
		must(w.A[0].Set("k", 0, nil, []byte(`{"a":1}`)))
		must(w.A[0].Set("j", 0, nil, []byte(`{"a":2}`)))
	}
	viewAfter := []SOp{
		opSafe("View(stale=update_after)", func(w *SWorld, st *TState) error {
			_, err := w.C(st.T).View(ctx, "dd", "v", map[string]any{"stale": "updateAfter"})
			return err
		}),
	}
	expSetup := func(w *SWorld) {
		must(w.A[0].Set("k", 10, nil, []byte(`{"a":1}`)))
		must(w.A[0].Set("j", 12, nil, []byte(`{"a":2}`)))
	}
	timerDue := []SOp{
		opSafe("clock passes the expiry", func(w *SWorld, st *TState) error { vrt.Advance(30 * time.Second); return nil }),
	}
	docs := func(w *SWorld) {
		must(w.A[0].SetRaw("k", 0, nil, []byte("k0")))
		must(w.A[0].SetRaw("j", 0, nil, []byte("j0")))
		f, err := StartLiveFeed(w.A[0], "live")
		must(err)
		w.Feeds = append(w.Feeds, f)
	}
	expWriter := []SOp{
		opSafe("Set k exp=10 (first expiry of this bucket)", func(w *SWorld, st *TState) error { return w.C(st.T).Set("k", 10, nil, []byte(`{"e":1}`)) }),
		opSafe("Touch j 20", func(w *SWorld, st *TState) error { _, err := w.C(st.T).Touch("j", 20); return err }),
	}
	for _, sd := range shutdowns {
		for _, cfg := range []struct {
			disk bool
			h    int
		}{{false, 1}, {true, 1}, {true, 2}} {
			if sd.name == "CloseAll" && cfg.h == 1 {
				continue
			}
			registerC20("writer", cfg.disk, cfg.h, docs, writer, sd)
			registerC20("expwriter", cfg.disk, cfg.h, docs, expWriter, sd)
			registerC20("feedstart", cfg.disk, cfg.h, docs, feedStart, sd)
			registerC20("feedstart-live", cfg.disk, cfg.h, docs, feedStartLive, sd)
			registerC20("viewupdate", cfg.disk, cfg.h, viewSetup, viewAfter, sd)
			registerC20("ddocwriter", cfg.disk, cfg.h, viewSetup, ddocWriter, sd)
			registerC20("expiry", cfg.disk, cfg.h, expSetup, timerDue, sd)
		}
	}
	// the same handle closed by two goroutines at once, a sibling handle open: one reference is released
	for _, disk := range []bool{false, true} {
		full := fmt.Sprintf("X-Close-vs-Close-same-handle/%s/h2", ifs(disk, "disk", "mem"))
		closeH0 := opSafe("Close(handle 0)", func(w *SWorld, st *TState) error { w.H[0].Close(ctx); return nil })
		RegisterScenario(&Scenario{Name: full, Prop: []string{"C20", "C13"}, Disk: disk, Handles: 2, Setup: docs,
			Threads: [][]SOp{{closeH0}, {closeH0}},
			Check: func(w *SWorld, ops []OpRec, final string) []Violation {
				var vs []Violation
				if _, _, err := w.A[1].GetRaw("k"); err != nil {
					vs = append(vs, Violation{Prop: "C13", Op: full, Pre: "sched", Field: "sibling-broken", Detail: "handle 0 was closed by two goroutines at once; the other, still open handle now fails: " + err.Error()})
				}
				if counts, _ := rosmar.VerifRegistry(); counts["b1"] != 1 {
					vs = append(vs, Violation{Prop: "C13", Op: full, Pre: "sched", Field: "refcount", Detail: fmt.Sprintf("one of two handles was closed (twice, concurrently); the reference count is %d", counts["b1"])})
				}
				return vs
			}})
	}
	// two shutdown calls racing each other
	for i, a := range shutdowns {
		for j := i; j < len(shutdowns); j++ {
			b := shutdowns[j]
			for _, disk := range []bool{false, true} {
				full := fmt.Sprintf("X-%s-vs-%s/%s/h2", a.name, b.name, ifs(disk, "disk", "mem"))
				a2 := shutdownKind{a.name, func(w *SWorld, st *TState) error {
					switch a.name {
					case "Close":
						w.H[0].Close(ctx)
						return nil
					case "CloseAndDelete":
						return w.H[0].CloseAndDelete(ctx)
					case "DropDataStore":
						return w.H[0].DropDataStore(NameA)
					}
					return a.do(w, st)
				}}
				RegisterScenario(&Scenario{Name: full, Prop: []string{"C20"}, Disk: disk, Handles: 2, Setup: docs,
					Threads: [][]SOp{{opShutdown(a2)}, {opShutdown(b)}}, Check: followUp(full)})
			}
		}
	}
}
