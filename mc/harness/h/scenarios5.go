package h

import (
	"fmt"
	"sort"
	"strings"

	sgbucket "github.com/couchbase/sg-bucket"
	"github.com/couchbaselabs/rosmar"
	"github.com/couchbaselabs/rosmar/vrt"
)

// ---- pairwise matrix: every unordered pair of a pool of ~30 client operations runs as two
// concurrent threads (same key where they have one), in memory with one handle and on disk with
// two, under universal oracles: linearizability against the sequential runs of the same
// implementation, per-feed CAS order and completeness on a full and a KeysOnly feed, no key's
// final version missed by a feed that starts during the race, revision = number of successful
// mutations, and the scheduler's own panic / deadlock / leak detection. The hand-written scenario
// families aim at windows somebody thought of; this matrix covers the pairs nobody did.

type pOp struct {
	SOp
	mutatesK  bool // a success mutates key k (for the revision count)
	cas       bool // a success reports the CAS it stored as its first CAS value
	needsRead bool // the thread first reads k (a separate operation) and passes that CAS
	meta      bool // the CAS is chosen by the caller (exempt from CAS-order expectations)
}

func pairPool() []pOp {
	var pool []pOp
	add := func(name string, mutatesK, cas bool, f func(w *SWorld, st *TState, c *rosmar.Collection) (string, []uint64)) {
		needsRead := strings.HasPrefix(name, "Get+")
		name = strings.TrimPrefix(name, "Get+")
		if needsRead {
			name += "(read cas)"
		}
		pool = append(pool, pOp{SOp: SOp{Name: name, Do: func(w *SWorld, st *TState) (string, []uint64) { return f(w, st, w.C(st.T)) }}, mutatesK: mutatesK, cas: cas, needsRead: needsRead, meta: strings.Contains(name, "WithMeta")})
	}
	errCas := func(cas uint64, err error) (string, []uint64) {
		if err != nil {
			cas = 0
		}
		return fmt.Sprintf("%s «0»", ec(err)), []uint64{cas}
	}
	readCas := func(c *rosmar.Collection) uint64 { panic("unused") }
	_ = readCas
	add("Set", true, false, func(w *SWorld, st *TState, c *rosmar.Collection) (string, []uint64) {
		return ec(c.Set("k", 0, nil, []byte(fmt.Sprintf(`{"v":"set%d"}`, st.T)))), nil
	})
	add("SetExp", true, false, func(w *SWorld, st *TState, c *rosmar.Collection) (string, []uint64) {
		return ec(c.Set("k", 10, nil, []byte(fmt.Sprintf(`{"v":"sete%d"}`, st.T)))), nil
	})
	add("Add", true, false, func(w *SWorld, st *TState, c *rosmar.Collection) (string, []uint64) {
		added, err := c.Add("k", 0, []byte(fmt.Sprintf(`{"v":"add%d"}`, st.T)))
		if err == nil && !added {
			return "refused", nil
		}
		return ec(err), nil
	})
	add("Delete", true, false, func(w *SWorld, st *TState, c *rosmar.Collection) (string, []uint64) { return ec(c.Delete("k")), nil })
	add("Get+Remove", true, true, func(w *SWorld, st *TState, c *rosmar.Collection) (string, []uint64) {
		return errCas(c.Remove("k", st.Cas))
	})
	add("Get+WriteCas", true, true, func(w *SWorld, st *TState, c *rosmar.Collection) (string, []uint64) {
		return errCas(c.WriteCas("k", 0, st.Cas, []byte(fmt.Sprintf(`{"v":"wc%d"}`, st.T)), 0))
	})
	add("Update(append)", true, true, func(w *SWorld, st *TState, c *rosmar.Collection) (string, []uint64) {
		var shown []byte
		cas, err := c.Update("k", 0, func(cur []byte) ([]byte, *uint32, bool, error) {
			shown = append([]byte(nil), cur...)
			return []byte(fmt.Sprintf(`{"v":"upd%d","prev":%d}`, st.T, len(cur))), nil, false, nil
		})
		s, cs := errCas(cas, err)
		return fmt.Sprintf("%s shown=%q", s, shown), cs
	})
	add("Update(exp only)", true, true, func(w *SWorld, st *TState, c *rosmar.Collection) (string, []uint64) {
		var shown []byte
		cas, err := c.Update("k", 0, func(cur []byte) ([]byte, *uint32, bool, error) {
			shown = append([]byte(nil), cur...)
			e := uint32(100)
			return nil, &e, false, nil
		})
		s, cs := errCas(cas, err)
		return fmt.Sprintf("%s shown=%q", s, shown), cs
	})
	add("Update(delete)", true, true, func(w *SWorld, st *TState, c *rosmar.Collection) (string, []uint64) {
		return errCas(c.Update("k", 0, func(cur []byte) ([]byte, *uint32, bool, error) { return nil, nil, true, nil }))
	})
	add("Incr n", false, false, func(w *SWorld, st *TState, c *rosmar.Collection) (string, []uint64) {
		n, err := c.Incr("n", 1, 1, 0)
		return fmt.Sprintf("%d/%s", n, ec(err)), nil
	})
	add("Touch", true, false, func(w *SWorld, st *TState, c *rosmar.Collection) (string, []uint64) {
		_, err := c.Touch("k", 50)
		return ec(err), nil
	})
	add("SetXattrs", true, true, func(w *SWorld, st *TState, c *rosmar.Collection) (string, []uint64) {
		return errCas(c.SetXattrs(ctx, "k", map[string][]byte{fmt.Sprintf("_x%d", st.T): []byte(`{"x":1}`)}))
	})
	add("Get+UpdateXattrs", true, true, func(w *SWorld, st *TState, c *rosmar.Collection) (string, []uint64) {
		return errCas(c.UpdateXattrs(ctx, "k", 0, st.Cas, map[string][]byte{"_s": []byte(fmt.Sprintf(`{"ux":%d}`, st.T))}, nil))
	})
	add("Get+RemoveXattrs", true, false, func(w *SWorld, st *TState, c *rosmar.Collection) (string, []uint64) {
		return ec(c.RemoveXattrs(ctx, "k", []string{"u"}, st.Cas)), nil
	})
	add("DeleteSubDocPaths", true, false, func(w *SWorld, st *TState, c *rosmar.Collection) (string, []uint64) {
		return ec(c.DeleteSubDocPaths(ctx, "k", "u")), nil
	})
	add("Get+WriteWithXattrs", true, true, func(w *SWorld, st *TState, c *rosmar.Collection) (string, []uint64) {
		return errCas(c.WriteWithXattrs(ctx, "k", 0, st.Cas, []byte(fmt.Sprintf(`{"v":"wwx%d"}`, st.T)), map[string][]byte{"_s": []byte(`{"w":1}`)}, nil, nil))
	})
	add("Get+WriteTombstoneWithXattrs", true, true, func(w *SWorld, st *TState, c *rosmar.Collection) (string, []uint64) {
		return errCas(c.WriteTombstoneWithXattrs(ctx, "k", 0, st.Cas, map[string][]byte{"_s": []byte(`{"t":1}`)}, nil, false, nil))
	})
	add("WriteResurrectionWithXattrs", true, true, func(w *SWorld, st *TState, c *rosmar.Collection) (string, []uint64) {
		return errCas(c.WriteResurrectionWithXattrs(ctx, "k", 0, []byte(fmt.Sprintf(`{"v":"res%d"}`, st.T)), map[string][]byte{"_s": []byte(`{"r":1}`)}, nil))
	})
	add("WriteUpdateWithXattrs", true, true, func(w *SWorld, st *TState, c *rosmar.Collection) (string, []uint64) {
		var shownCas uint64
		cas, err := c.WriteUpdateWithXattrs(ctx, "k", []string{"_s"}, 0, nil, &sgbucket.MutateInOptions{}, func(doc []byte, x map[string][]byte, cas uint64) (sgbucket.UpdatedDoc, error) {
			shownCas = cas
			return sgbucket.UpdatedDoc{Doc: []byte(fmt.Sprintf(`{"v":"wux%d"}`, st.T)), Xattrs: map[string][]byte{"_s": []byte(`{"wux":1}`)}}, nil
		})
		if err != nil {
			cas = 0
		}
		return fmt.Sprintf("%s «0» shown=«1»", ec(err)), []uint64{cas, shownCas}
	})
	add("WriteUpdateWithXattrs(tombstone)", true, true, func(w *SWorld, st *TState, c *rosmar.Collection) (string, []uint64) {
		var shownCas uint64
		cas, err := c.WriteUpdateWithXattrs(ctx, "k", []string{"_s"}, 0, nil, &sgbucket.MutateInOptions{}, func(doc []byte, x map[string][]byte, cas uint64) (sgbucket.UpdatedDoc, error) {
			shownCas = cas
			return sgbucket.UpdatedDoc{IsTombstone: true, Xattrs: map[string][]byte{"_s": []byte(fmt.Sprintf(`{"del":%d}`, st.T))}}, nil
		})
		if err != nil {
			cas = 0
		}
		return fmt.Sprintf("%s «0» shown=«1»", ec(err)), []uint64{cas, shownCas}
	})
	add("DeleteWithXattrs", true, false, func(w *SWorld, st *TState, c *rosmar.Collection) (string, []uint64) {
		return ec(c.DeleteWithXattrs(ctx, "k", []string{"u"})), nil
	})
	add("Get+SetWithMeta(ahead)", true, true, func(w *SWorld, st *TState, c *rosmar.Collection) (string, []uint64) {
		nc := uint64(vrt.Epoch) + 0x8000000 + uint64(st.T)*0x100000
		err := c.SetWithMeta(ctx, "k", st.Cas, nc, 0, nil, []byte(fmt.Sprintf(`{"v":"swm%d"}`, st.T)), sgbucket.FeedDataTypeJSON)
		return errCas(nc, err)
	})
	add("WriteSubDoc", true, true, func(w *SWorld, st *TState, c *rosmar.Collection) (string, []uint64) {
		return errCas(c.WriteSubDoc(ctx, "k", fmt.Sprintf("p%d", st.T), 0, []byte(`1`)))
	})
	add("Get+WriteSubDoc", true, true, func(w *SWorld, st *TState, c *rosmar.Collection) (string, []uint64) {
		return errCas(c.WriteSubDoc(ctx, "k", fmt.Sprintf("q%d", st.T), st.Cas, []byte(`2`)))
	})
	add("SubdocInsert", true, false, func(w *SWorld, st *TState, c *rosmar.Collection) (string, []uint64) {
		return ec(c.SubdocInsert(ctx, "k", "ins", 0, st.T+1)), nil
	})
	add("PurgeTombstones", false, false, func(w *SWorld, st *TState, c *rosmar.Collection) (string, []uint64) {
		n, err := w.H[st.T%len(w.H)].PurgeTombstones()
		return fmt.Sprintf("%d/%s", n, ec(err)), nil
	})
	add("GetRaw", false, false, func(w *SWorld, st *TState, c *rosmar.Collection) (string, []uint64) {
		v, cas, err := c.GetRaw("k")
		return fmt.Sprintf("%q/%s «0»", v, ec(err)), []uint64{cas}
	})
	add("GetWithXattrs", false, false, func(w *SWorld, st *TState, c *rosmar.Collection) (string, []uint64) {
		v, xs, cas, err := c.GetWithXattrs(ctx, "k", []string{"_s", "u"})
		return fmt.Sprintf("%q %s/%s «0»", v, fmtX(xmap(xs)), ec(err)), []uint64{cas}
	})
	add("StartDCPFeed(backfill+live)", false, false, func(w *SWorld, st *TState, c *rosmar.Collection) (string, []uint64) {
		f := NewFeedRec("bf+live")
		err := c.StartDCPFeed(ctx, sgbucket.FeedArguments{ID: fmt.Sprintf("bf%d", st.T), Backfill: 0, Terminator: f.Term, DoneChan: f.Done}, f.callback, nil)
		w.Feeds = append(w.Feeds, f)
		return ec(err), nil
	})
	add("View(stale=false)", false, false, func(w *SWorld, st *TState, c *rosmar.Collection) (string, []uint64) {
		res, err := c.View(ctx, "dd", "v", nil)
		_ = res // the rows depend on where the query linearizes; only the error matters here
		return ec(err), nil
	})
	add("Query", false, false, func(w *SWorld, st *TState, c *rosmar.Collection) (string, []uint64) {
		r := queryString(c, `SELECT count(*) AS n FROM $_keyspace WHERE id != 'k'`, nil)
		return r, nil
	})
	return pool
}

// pThread: the operation, preceded by a read of k (an operation of its own) when it needs a CAS.
func pThread(p pOp) []SOp {
	if !p.needsRead {
		return []SOp{p.SOp}
	}
	read := SOp{Name: "GetWithXattrs k", Do: func(w *SWorld, st *TState) (string, []uint64) {
		v, _, cas, err := w.C(st.T).GetWithXattrs(ctx, "k", []string{"_s"})
		st.Cas = cas
		return fmt.Sprintf("%q/%s «0»", v, ec(err)), []uint64{cas}
	}}
	return []SOp{read, p.SOp}
}

// pairSetup: pre is the state of k before the race: "live", "tomb" (deleted, system xattr kept) or "absent".
func pairSetup(w *SWorld, pre string) {
	var err error
	if pre != "absent" {
		_, err = w.A[0].WriteWithXattrs(ctx, "k", 0, 0, []byte(`{"v":0,"a":{"z":1}}`), map[string][]byte{"_s": []byte(`{"n":0}`), "u": []byte(`{"u":0}`)}, nil, nil)
		must(err)
	}
	if pre == "tomb" {
		must(w.A[0].Delete("k"))
	}
	must(w.A[0].Set("j", 0, nil, []byte(`{"v":"j"}`)))
	must(w.A[0].SetRaw("n", 0, nil, []byte("5")))
	must(w.A[0].PutDDoc(ctx, "dd", &sgbucket.DesignDoc{Views: sgbucket.ViewMap{"v": sgbucket.ViewDef{Map: `function(doc,meta){ if (doc.v !== undefined) emit(meta.id, null); }`}}}))
	f1, err := StartLiveFeed(w.A[0], "live")
	must(err)
	f2 := NewFeedRec("keysonly")
	must(w.A[len(w.A)-1].StartDCPFeed(ctx, sgbucket.FeedArguments{ID: "keysonly", Backfill: sgbucket.FeedNoBackfill, KeysOnly: true, Terminator: f2.Term, DoneChan: f2.Done}, f2.callback, nil))
	w.Feeds = append(w.Feeds, f1, f2)
}

func init() {
	pool := pairPool()
	for i := range pool {
		for j := i; j < len(pool); j++ {
			a, b := pool[i], pool[j]
			name := "P-" + a.Name + "~" + b.Name
			check := func(w *SWorld, ops []OpRec, final string) []Violation {
				var vs []Violation
				baseRev := int(w.setupRev)
				// per-feed CAS order; the mutations that reported a CAS must all have been delivered
				var want []uint64
				muts := 0
				metaCas := map[uint64]bool{}
				for _, o := range ops {
					p := a
					if o.Thread == 1 {
						p = b
					}
					if o.Name != p.Name {
						continue // the preliminary read
					}
					ok := o.Out == "" || strings.HasPrefix(o.Out, " ")
					if ok && p.meta && len(o.Cas) > 0 {
						metaCas[o.Cas[0]] = true
					}
					if ok && p.mutatesK {
						muts++
					}
					if ok && p.cas && len(o.Cas) > 0 && o.Cas[0] != 0 {
						want = append(want, o.Cas[0])
					}
				}
				d, err := rosmar.VerifDumpAll(w.H[0])
				if err != nil {
					return nil
				}
				rows := rowsOf(d)
				for _, f := range w.Feeds {
					evs := feedEvents(f, "")
					got := map[uint64]bool{}
					seenFinal := map[string]bool{}
					var prev uint64
					for _, e := range evs {
						got[e.Cas] = true
						seenFinal[fmt.Sprintf("%s@%d", e.Key, e.Cas)] = true
						if metaCas[e.Cas] {
							continue // a caller-chosen CAS may lie anywhere
						}
						if prev != 0 && e.Cas <= prev && f.Name != "bf+live" {
							vs = append(vs, Violation{Prop: "C08", Op: name, Pre: "sched", Field: "order", Detail: fmt.Sprintf("feed %s received CAS %d after CAS %d", f.Name, e.Cas, prev)})
						}
						prev = e.Cas
					}
					if f.Name != "bf+live" {
						for _, c := range want {
							if !got[c] {
								vs = append(vs, Violation{Prop: "C08", Op: name, Pre: "sched", Field: "multiset", Detail: fmt.Sprintf("feed %s never received the successful mutation stamped %d (received %v)", f.Name, c, evs)})
							}
						}
					}
					// revision numbers on a feed: increasing per key, and the event of a key's final version carries
					// the key's revision (C17)
					lastRev := map[string]uint64{}
					for _, e := range evs {
						if e.Key == "" || strings.HasSuffix(e.Opcode, "Backfill") {
							continue
						}
						if p, ok := lastRev[e.Key]; ok && e.RevNo <= p && !strings.Contains(name, "PurgeTombstones") {
							vs = append(vs, Violation{Prop: "C17", Op: name, Pre: "sched", Field: "event-rev-order", Detail: fmt.Sprintf("feed %s: event of %s with revision %d after one with revision %d: %v", f.Name, e.Key, e.RevNo, p, evs)})
						}
						lastRev[e.Key] = e.RevNo
						// (a touch raises the revision without a new CAS and without an event: pairs with one are exempt)
						if r := rows["sc.A/"+e.Key]; r != nil && r.Cas == e.Cas && uint64(r.RevSeqNo) != e.RevNo && !strings.Contains(name, "Touch") {
							vs = append(vs, Violation{Prop: "C17", Op: name, Pre: "sched", Field: "event-rev", Detail: fmt.Sprintf("feed %s: the event of the final version of %s (CAS %d) carries revision %d, the document has %d", f.Name, e.Key, e.Cas, e.RevNo, r.RevSeqNo)})
						}
					}
					// whichever way a feed came to be, the final version of every key reached it
					for _, k := range []string{"k", "j", "n"} {
						if r := rows["sc.A/"+k]; r != nil && (f.Name == "bf+live" || true) {
							if f.Name != "bf+live" && r.Cas <= w.setupMaxCas {
								continue // not touched during the race: a live-only feed never saw it
							}
							if !seenFinal[fmt.Sprintf("%s@%d", k, r.Cas)] {
								vs = append(vs, Violation{Prop: "C09", Op: name, Pre: "sched", Field: "gap", Detail: fmt.Sprintf("feed %s never received the final version of %s (CAS %d); it saw %v", f.Name, k, r.Cas, evs)})
							}
						}
					}
				}
				// revision of k = 1 (setup) + successful mutations, unless it was purged in between
				purge := strings.Contains(name, "PurgeTombstones")
				if r := rows["sc.A/k"]; r != nil && !purge && int(r.RevSeqNo) != baseRev+muts {
					vs = append(vs, Violation{Prop: "C17", Op: name, Pre: "sched", Field: "rev-count", Detail: fmt.Sprintf("%d successful mutations of k after its creation but its revision is %d", muts, r.RevSeqNo)})
				}
				return vs
			}
			for _, v := range []struct {
				pre      string
				disk     bool
				h        int
				thorough bool
			}{{"live", false, 1, false}, {"live", true, 2, false}, {"absent", false, 1, false}, {"tomb", false, 1, false}, {"absent", true, 2, true}, {"tomb", true, 2, true}} {
				pre := v.pre
				props := []string{"C03"}
				if a.needsRead || b.needsRead {
					props = append(props, "C02") // a CAS-carrying write is in the race
				}
				if strings.Contains(name, "ubDoc") || strings.Contains(name, "ubdoc") {
					props = append(props, "C18")
				}
				s2 := Scenario{Name: name, Prop: props, Lin: true, Keys: []string{"k", "j", "n"}, Setup: func(w *SWorld) {
					pairSetup(w, pre)
					d, _ := rosmar.VerifDumpAll(w.H[0])
					w.setupMaxCas = d.BucketLastCas
					w.setupRev = 0
					if r := rowsOf(d)["sc.A/k"]; r != nil {
						w.setupRev = r.RevSeqNo
					}
				}, Threads: [][]SOp{pThread(a), pThread(b)}, Check: check}
				s2.Disk, s2.Handles, s2.ThoroughOnly = v.disk, v.h, v.thorough
				s2.Name = fmt.Sprintf("%s/%s/%s/h%d", name, v.pre, ifs(v.disk, "disk", "mem"), v.h)
				c := s2
				RegisterScenario(&c)
			}
		}
	}
	_ = sort.Strings
}
