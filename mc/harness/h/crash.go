package h

import (
	"bytes"
	"encoding/json"
	"fmt"
	"os"
	"os/exec"
	"path/filepath"
	"sort"
	"strconv"
	"strings"
	"sync"
	"time"

	sgbucket "github.com/couchbase/sg-bucket"
	"github.com/couchbaselabs/rosmar"
	"github.com/couchbaselabs/rosmar/vrt"
)

// ---------------------------------------------------------------------------------------------
// CRASH engine (DESIGN §2.5): every write-class system call of a write history is a crash point.

type crashWorld struct {
	dir  string
	b    *rosmar.Bucket
	a, c *rosmar.Collection // sc.A and (when created) sc.B
	feed *FeedRec
}

type crashStep struct {
	name string // a name starting with "Close" means: the bucket is closed after this step, the writer cannot dump its own view
	do   func(w *crashWorld) error
}

func (w *crashWorld) url() string { return "rosmar://" + filepath.Join(w.dir, "b1") }

func openStep(w *crashWorld) error {
	b, err := rosmar.OpenBucket(w.url(), "b1", rosmar.CreateNew)
	if err != nil {
		return err
	}
	w.b = b
	return nil
}

func collAStep(w *crashWorld) error {
	ds, err := w.b.NamedDataStore(NameA)
	if err != nil {
		return err
	}
	w.a = ds.(*rosmar.Collection)
	return nil
}

func curCas(w *crashWorld, cl *rosmar.Collection, key string) uint64 {
	_, _, cas, _ := cl.GetWithXattrs(ctx, key, []string{"_s"})
	return cas
}

// waitFor polls (reads only) until cond holds; used for background work the history waits on.
func waitFor(cond func() bool) error {
	deadline := time.Now().Add(20 * time.Second)
	for !cond() {
		if time.Now().After(deadline) {
			return fmt.Errorf("timed out waiting for background work")
		}
		time.Sleep(time.Millisecond)
	}
	return nil
}

var crashHistories = map[string][]crashStep{
	"H1-kv": {
		{"OpenBucket(CreateNew)", openStep},
		{"NamedDataStore(sc.A)", collAStep},
		{"Add k", func(w *crashWorld) error { _, err := w.a.Add("k", 0, []byte(`{"v":1}`)); return err }},
		{"Set j exp=100", func(w *crashWorld) error { return w.a.Set("j", 100, nil, []byte(`{"v":2}`)) }},
		{"WriteCas k", func(w *crashWorld) error {
			_, err := w.a.WriteCas("k", 0, curCas(w, w.a, "k"), []byte(`{"v":3}`), 0)
			return err
		}},
		{"Incr n", func(w *crashWorld) error { _, err := w.a.Incr("n", 1, 5, 0); return err }},
		{"Touch j", func(w *crashWorld) error { _, err := w.a.Touch("j", 200); return err }},
		{"Delete k", func(w *crashWorld) error { return w.a.Delete("k") }},
		{"Set k (resurrect)", func(w *crashWorld) error { return w.a.SetRaw("k", 0, nil, []byte("raw")) }},
		{"Append k", func(w *crashWorld) error {
			_, err := w.a.WriteCas("k", 0, curCas(w, w.a, "k"), []byte("+more"), sgbucket.Append)
			return err
		}},
	},
	"H2-xattrs": {
		{"OpenBucket(CreateNew)", openStep},
		{"NamedDataStore(sc.A)", collAStep},
		{"WriteWithXattrs k (macros)", func(w *crashWorld) error {
			_, err := w.a.WriteWithXattrs(ctx, "k", 0, 0, []byte(`{"v":1}`), map[string][]byte{"_s": []byte(`{"cas":"x","crc":"y"}`), "u": []byte(`{"u":1}`)}, nil,
				&sgbucket.MutateInOptions{MacroExpansion: []sgbucket.MacroExpansionSpec{sgbucket.NewMacroExpansionSpec("_s.cas", sgbucket.MacroCas), sgbucket.NewMacroExpansionSpec("_s.crc", sgbucket.MacroCrc32c)}})
			return err
		}},
		{"UpdateXattrs k", func(w *crashWorld) error {
			_, err := w.a.UpdateXattrs(ctx, "k", 0, curCas(w, w.a, "k"), map[string][]byte{"_t": []byte(`{"t":1}`)}, nil)
			return err
		}},
		{"SetXattrs j (absent)", func(w *crashWorld) error {
			_, err := w.a.SetXattrs(ctx, "j", map[string][]byte{"_s": []byte(`{"j":1}`)})
			return err
		}},
		{"WriteTombstoneWithXattrs k", func(w *crashWorld) error {
			_, err := w.a.WriteTombstoneWithXattrs(ctx, "k", 0, curCas(w, w.a, "k"), map[string][]byte{"_s": []byte(`{"dead":1}`)}, nil, true, nil)
			return err
		}},
		{"WriteResurrectionWithXattrs k", func(w *crashWorld) error {
			_, err := w.a.WriteResurrectionWithXattrs(ctx, "k", 50, []byte(`{"v":2}`), map[string][]byte{"_s": []byte(`{"alive":1}`)}, nil)
			return err
		}},
		{"RemoveXattrs k._s", func(w *crashWorld) error { return w.a.RemoveXattrs(ctx, "k", []string{"_s"}, curCas(w, w.a, "k")) }},
		{"SetWithMeta j", func(w *crashWorld) error {
			c := curCas(w, w.a, "j")
			return w.a.SetWithMeta(ctx, "j", c, c+0x100000, 0, []byte(`{"_s":{"m":1}}`), []byte(`{"v":"meta"}`), sgbucket.FeedDataTypeJSON)
		}},
		{"DeleteWithXattrs k", func(w *crashWorld) error { return w.a.DeleteWithXattrs(ctx, "k", nil) }},
	},
	"H3-multistep": {
		{"OpenBucket(CreateNew)", openStep},
		{"NamedDataStore(sc.A)", collAStep},
		{"Set k", func(w *crashWorld) error { return w.a.Set("k", 0, nil, []byte(`{"n":0}`)) }},
		{"Update k (one forced retry)", func(w *crashWorld) error {
			calls := 0
			_, err := w.a.Update("k", 0, func(cur []byte) ([]byte, *uint32, bool, error) {
				calls++
				if calls == 1 {
					return nil, nil, false, sgbucket.ErrCasFailureShouldRetry // take the retry path once (no other write: every mutation of a history is an acknowledged call of its own)
				}
				return append(append([]byte(nil), cur[:len(cur)-1]...), []byte(`,"u":1}`)...), nil, false, nil
			})
			return err
		}},
		{"WriteSubDoc k.s", func(w *crashWorld) error { _, err := w.a.WriteSubDoc(ctx, "k", "s", 0, []byte(`{"x":1}`)); return err }},
		{"Set e exp=10", func(w *crashWorld) error { return w.a.Set("e", 10, nil, []byte(`{"e":1}`)) }},
		{"clock +20s: expiry sweep", func(w *crashWorld) error {
			vrt.Advance(20 * time.Second)
			return waitFor(func() bool { _, _, err := w.a.GetRaw("e"); return err != nil })
		}},
		{"checkpointed feed: start, receive, stop", func(w *crashWorld) error {
			f := NewFeedRec("cp")
			var mu sync.Mutex
			n := 0
			err := w.a.StartDCPFeed(ctx, sgbucket.FeedArguments{ID: "cp", Backfill: sgbucket.FeedResume, CheckpointPrefix: "chk", Terminator: f.Term, DoneChan: f.Done},
				func(ev sgbucket.FeedEvent) bool { mu.Lock(); n++; mu.Unlock(); return true }, nil)
			if err != nil {
				return err
			}
			if err := waitFor(func() bool { mu.Lock(); defer mu.Unlock(); return n >= 4 }); err != nil {
				return err
			}
			close(f.Term)
			<-f.Done
			return nil
		}},
		{"Set k2 exp=300 (pending expiry)", func(w *crashWorld) error { return w.a.Set("k2", 300, nil, []byte(`{"p":1}`)) }},
	},
	"H5-close-reopen": {
		{"OpenBucket(CreateNew)", openStep},
		{"NamedDataStore(sc.A)", collAStep},
		{"Set k", func(w *crashWorld) error { return w.a.Set("k", 0, nil, []byte(`{"v":1}`)) }},
		{"Set j exp=500", func(w *crashWorld) error { return w.a.Set("j", 500, nil, []byte(`{"v":2}`)) }},
		{"Close (last handle: SQLite checkpoints and removes the WAL)", func(w *crashWorld) error { w.b.Close(ctx); return nil }},
		{"OpenBucket(ReOpenExisting)", func(w *crashWorld) error {
			b, err := rosmar.OpenBucket(w.url(), "b1", rosmar.ReOpenExisting)
			if err != nil {
				return err
			}
			w.b = b
			return collAStep(w)
		}},
		{"Delete k", func(w *crashWorld) error { return w.a.Delete("k") }},
		{"Set k2", func(w *crashWorld) error { return w.a.Set("k2", 0, nil, []byte(`{"v":3}`)) }},
		{"Close again", func(w *crashWorld) error { w.b.Close(ctx); return nil }},
	},
	"H4-collections-views": {
		{"OpenBucket(CreateNew)", openStep},
		{"NamedDataStore(sc.A)", collAStep},
		{"CreateDataStore(sc.B)", func(w *crashWorld) error {
			if err := w.b.CreateDataStore(ctx, NameB); err != nil {
				return err
			}
			ds, err := w.b.NamedDataStore(NameB)
			if err == nil {
				w.c = ds.(*rosmar.Collection)
			}
			return err
		}},
		{"B.Set k", func(w *crashWorld) error { return w.c.Set("k", 0, nil, []byte(`{"v":"b"}`)) }},
		{"A.PutDDoc", func(w *crashWorld) error {
			return w.a.PutDDoc(ctx, "dd", &sgbucket.DesignDoc{Views: sgbucket.ViewMap{"v": sgbucket.ViewDef{Map: `function(doc,meta){ if (doc.v !== undefined) emit(doc.v, meta.id); }`}}})
		}},
		{"A.Set k", func(w *crashWorld) error { return w.a.Set("k", 0, nil, []byte(`{"v":1}`)) }},
		{"A.Set j", func(w *crashWorld) error { return w.a.Set("j", 0, nil, []byte(`{"v":2}`)) }},
		{"A.View (index update)", func(w *crashWorld) error { _, err := w.a.View(ctx, "dd", "v", nil); return err }},
		{"A.Delete j", func(w *crashWorld) error { return w.a.Delete("j") }},
		{"A.View (index update 2)", func(w *crashWorld) error { _, err := w.a.View(ctx, "dd", "v", nil); return err }},
		{"DropDataStore(sc.B)", func(w *crashWorld) error { return w.b.DropDataStore(NameB) }},
		{"PurgeTombstones", func(w *crashWorld) error { _, err := w.b.PurgeTombstones(); return err }},
		{"A.PutDDoc (replace)", func(w *crashWorld) error {
			return w.a.PutDDoc(ctx, "dd", &sgbucket.DesignDoc{Views: sgbucket.ViewMap{"v2": sgbucket.ViewDef{Map: `function(doc,meta){ emit(meta.id, null); }`}}})
		}},
	},
}

// dumpString renders every persistent table except the UUID.
func dumpString(d rosmar.VerifDump) string {
	var b strings.Builder
	fmt.Fprintf(&b, "bucket name=%s lastCas=%d\n", d.BucketName, d.BucketLastCas)
	for _, c := range d.Collections {
		fmt.Fprintf(&b, "collection %d %s lastCas=%d\n", c.ID, c.Name, c.LastCas)
	}
	for _, r := range d.Docs {
		fmt.Fprintf(&b, "doc #%d %s/%s v=%q has=%v cas=%d exp=%d x=%q json=%v tomb=%d rev=%d\n", r.RowID, r.Collection, r.Key, r.Value, r.HasValue, r.Cas, r.Exp, r.Xattrs, r.IsJSON, r.Tombstone, r.RevSeqNo)
	}
	for _, v := range d.Views {
		fmt.Fprintf(&b, "view %s %s/%s map=%q reduce=%q lastCas=%d rows=%v\n", v.Collection, v.DDoc, v.View, v.MapFn, v.ReduceFn, v.LastCas, v.Mapped)
	}
	return b.String()
}

type crashDump struct {
	OpenErr  string `json:"openErr,omitempty"`
	UUID     string `json:"uuid"`
	Tables   string `json:"tables"`
	MaxCas   uint64 `json:"maxCas"`
	NewCas   uint64 `json:"newCas"`   // CAS of a probe write made after the dump (C04d)
	Expiry   string `json:"expiry"`   // result of the pending-expiry check
	ProbeErr string `json:"probeErr,omitempty"`
}

// CrashChildMain runs a history in passthrough mode; ACK_FILE receives one line per returned call.
func CrashChildMain(history string) {
	steps := crashHistories[history]
	if steps == nil {
		fmt.Fprintln(os.Stderr, "unknown history", history)
		os.Exit(2)
	}
	stopAfter, _ := strconv.Atoi(os.Getenv("STOP_AFTER"))
	ack, err := os.OpenFile(os.Getenv("ACK_FILE"), os.O_WRONLY|os.O_CREATE|os.O_APPEND, 0o644)
	if err != nil {
		fmt.Fprintln(os.Stderr, err)
		os.Exit(2)
	}
	w := &crashWorld{dir: os.Getenv("CRASH_DIR")}
	for i, st := range steps {
		if err := st.do(w); err != nil {
			fmt.Fprintf(ack, "error %d %s: %v\n", i, st.name, err)
			os.Exit(3)
		}
		if w.b != nil && !strings.HasPrefix(st.name, "Close") {
			if u, uerr := w.b.UUID(); uerr == nil {
				fmt.Fprintf(ack, "uuid %s\n", u)
			}
		}
		fmt.Fprintf(ack, "ack %d\n", i)
		if os.Getenv("STOP_AFTER") != "" && i == stopAfter {
			if strings.HasPrefix(st.name, "Close") {
				out, _ := json.Marshal(crashDump{Tables: "(closed)"})
				os.Stdout.Write(out)
				os.Exit(0)
			}
			d, err := rosmar.VerifDumpAll(w.b)
			if err != nil {
				fmt.Fprintln(os.Stderr, "dump:", err)
				os.Exit(2)
			}
			uuid, _ := w.b.UUID()
			out, _ := json.Marshal(crashDump{UUID: uuid, Tables: dumpString(d)})
			os.Stdout.Write(out)
			os.Exit(0) // no Close: the process simply ends here
		}
	}
	os.Exit(0)
}

// CrashDumpMain opens the bucket in a fresh process and prints everything it holds.
func CrashDumpMain(dir string) {
	// this process's wall clock is an hour behind the child's: CAS values must still continue upwards
	vrt.SetClock(vrt.Epoch - int64(time.Hour))
	var out crashDump
	defer func() {
		b, _ := json.Marshal(out)
		os.Stdout.Write(b)
	}()
	if _, err := os.Stat(filepath.Join(dir, "b1")); err != nil {
		out.OpenErr = "nodir"
		return
	}
	// "visible to any later open": the verifier opens with ReOpenExisting or CreateOrOpen (CRASH_OPEN_MODE)
	var mode rosmar.OpenMode = rosmar.ReOpenExisting
	if os.Getenv("CRASH_OPEN_MODE") == "CreateOrOpen" {
		mode = rosmar.CreateOrOpen
	}
	b, err := rosmar.OpenBucket("rosmar://"+filepath.Join(dir, "b1"), "b1", mode)
	if err != nil {
		out.OpenErr = err.Error()
		return
	}
	d, err := rosmar.VerifDumpAll(b)
	if err != nil {
		out.OpenErr = "dump: " + err.Error()
		return
	}
	out.UUID, _ = b.UUID()
	out.Tables = dumpString(d)
	out.MaxCas = d.BucketLastCas
	var pending *rosmar.VerifDocRow
	for i, r := range d.Docs {
		if r.Cas > out.MaxCas && !strings.Contains(string(r.Value), "meta") {
			out.MaxCas = r.Cas
		}
		if r.HasValue && r.Exp > 0 && (pending == nil || r.Exp < pending.Exp) {
			pending = &d.Docs[i]
		}
	}
	// pending expirations survive the reopen: move the clock past the earliest one and wait for the sweep
	if pending != nil {
		pname := sgbucket.DataStoreNameImpl{Scope: strings.Split(pending.Collection, ".")[0], Collection: strings.Split(pending.Collection, ".")[1]}
		if os.Getenv("CRASH_EXPIRY_MODE") == "closed" {
			// the deadline passes while the bucket is closed: it is honoured when the bucket is opened again
			b.Close(ctx)
			vrt.SetClock(int64(pending.Exp)*int64(time.Second) + 6*int64(time.Second))
			if b, err = rosmar.OpenBucket("rosmar://"+filepath.Join(dir, "b1"), "b1", rosmar.ReOpenExisting); err != nil {
				out.Expiry = "cannot reopen: " + err.Error()
				return
			}
		} else {
			vrt.SetClock(int64(pending.Exp)*int64(time.Second) - int64(time.Second))
			vrt.Advance(7 * time.Second)
		}
		cl := coll(b, pname)
		if err := waitFor(func() bool { _, _, e := cl.GetRaw(pending.Key); return e != nil }); err != nil {
			out.Expiry = fmt.Sprintf("document %s/%s with expiry %d was not expired after reopen", pending.Collection, pending.Key, pending.Exp)
		} else {
			out.Expiry = "ok"
		}
		vrt.SetClock(vrt.Epoch - int64(time.Hour))
	}
	// first CAS handed out after the reopen
	ds := b.DefaultDataStore()
	if ds == nil {
		out.ProbeErr = "no default data store"
		return
	}
	cas, err := ds.(*rosmar.Collection).WriteCas("probe-after-reopen", 0, 0, []byte(`{"p":1}`), 0)
	if err != nil {
		out.ProbeErr = err.Error()
	}
	out.NewCas = cas
	b.Close(ctx)
}

// ---- parent side ---------------------------------------------------------------------------------

type crashRun struct {
	uuid   string
	acks   int
	errors []string
	stdout []byte
	killed bool
}

func runCrashChild(exe, so, history, dir string, crashAt, stopAfter int) crashRun {
	ackFile := filepath.Join(filepath.Dir(dir), filepath.Base(dir)+".ack")
	_ = os.Remove(ackFile)
	cmd := exec.Command(exe, "crashchild", history)
	cmd.Env = append(os.Environ(), "LD_PRELOAD="+so, "CRASH_DIR="+dir, "ACK_FILE="+ackFile, "GOMAXPROCS=2")
	if crashAt > 0 {
		cmd.Env = append(cmd.Env, fmt.Sprintf("CRASH_AT=%d", crashAt))
	}
	if stopAfter >= 0 {
		cmd.Env = append(cmd.Env, fmt.Sprintf("STOP_AFTER=%d", stopAfter))
	}
	cmd.Env = append(cmd.Env, "CRASH_LOG="+filepath.Join(filepath.Dir(dir), filepath.Base(dir)+".log"))
	var out, errb bytes.Buffer
	cmd.Stdout, cmd.Stderr = &out, &errb
	err := cmd.Run()
	var r crashRun
	r.stdout = out.Bytes()
	if ee, ok := err.(*exec.ExitError); ok && !ee.Success() {
		r.killed = ee.ExitCode() == -1
		if !r.killed {
			r.errors = append(r.errors, fmt.Sprintf("child exit %d: %s", ee.ExitCode(), strings.TrimSpace(errb.String())))
		}
	}
	b, _ := os.ReadFile(ackFile)
	for _, l := range strings.Split(string(b), "\n") {
		if strings.HasPrefix(l, "uuid ") {
			r.uuid = strings.TrimPrefix(l, "uuid ")
		} else if strings.HasPrefix(l, "ack ") {
			r.acks++
		} else if strings.HasPrefix(l, "error ") {
			r.errors = append(r.errors, l)
		}
	}
	_ = os.Remove(ackFile)
	return r
}

func runCrashDump(exe, dir string, openMode ...string) (crashDump, error) {
	cmd := exec.Command(exe, "crashdump", dir)
	cmd.Env = append(os.Environ(), "GOMAXPROCS=2")
	if len(openMode) > 0 {
		f := strings.Fields(openMode[0])
		cmd.Env = append(cmd.Env, "CRASH_OPEN_MODE="+f[0])
		if len(f) > 1 {
			cmd.Env = append(cmd.Env, "CRASH_EXPIRY_MODE="+f[1])
		}
	}
	var out, errb bytes.Buffer
	cmd.Stdout, cmd.Stderr = &out, &errb
	err := cmd.Run()
	var d crashDump
	if jerr := json.Unmarshal(out.Bytes(), &d); jerr != nil {
		return d, fmt.Errorf("verifier failed: %v %s %s", err, errb.String(), out.String())
	}
	return d, nil
}

type CrashReplay struct {
	Kind    string `json:"kind"`
	History string `json:"history"`
	CrashAt int    `json:"crashAt"`
}

// RunCrash enumerates every crash point of one history.
func RunCrash(rep *Report, history string, procs int, deadline time.Time) {
	exe, _ := os.Executable()
	so := filepath.Join(VerifSoDir(), "crashpoint.so")
	if _, err := os.Stat(so); err != nil {
		rep.Internal = append(rep.Internal, "crashpoint.so not built: "+so)
		return
	}
	steps := crashHistories[history]
	root := filepath.Join(ScratchRoot, "crash-"+history)
	_ = os.MkdirAll(root, 0o755)
	defer os.RemoveAll(root)
	newDir := func(tag string) string {
		d := filepath.Join(root, tag)
		_ = os.RemoveAll(d)
		_ = os.MkdirAll(d, 0o755)
		return d
	}
	viol := func(field, detail string, crashAt int) {
		rep.AddViolation(Violation{Prop: rep.Prop, Op: history, Pre: "crash", Field: field, Detail: detail}, CrashReplay{"crash", history, crashAt})
	}
	// ---- golden states: the history stopped (process exit, no Close) after each acknowledged call
	golden := make([]string, len(steps)+1) // golden[a] = state after a acknowledged calls; golden[0] = nothing
	uuid := ""
	var maxCasAcked []uint64
	for a := 0; a < len(steps); a++ {
		dir := newDir(fmt.Sprintf("g%d", a))
		r := runCrashChild(exe, so, history, dir, 0, a)
		if len(r.errors) > 0 || r.acks != a+1 {
			rep.Internal = append(rep.Internal, fmt.Sprintf("%s: golden run to step %d failed: acks=%d %v", history, a, r.acks, r.errors))
			return
		}
		var inproc crashDump
		if err := json.Unmarshal(r.stdout, &inproc); err != nil {
			rep.Internal = append(rep.Internal, fmt.Sprintf("%s: golden run %d printed no dump: %s", history, a, r.stdout))
			return
		}
		fresh, err := runCrashDump(exe, dir)
		if err != nil {
			rep.Internal = append(rep.Internal, err.Error())
			return
		}
		if fresh.OpenErr != "" {
			viol("reopen", fmt.Sprintf("after %d acknowledged calls (last: %s) and a process exit the bucket cannot be reopened: %s", a+1, steps[a].name, fresh.OpenErr), 0)
			return
		}
		if inproc.UUID != "" && fresh.UUID != inproc.UUID {
			viol("uuid", fmt.Sprintf("after %q and a process exit the reopened bucket has UUID %s, the writer saw %s", steps[a].name, fresh.UUID, inproc.UUID), 0)
		}
		if inproc.Tables != "(closed)" && fresh.Tables != inproc.Tables {
			viol("durability", fmt.Sprintf("after %q returned and the process exited, a fresh process sees a different state than the writer saw:\n%s", steps[a].name, firstDiff(inproc.Tables, fresh.Tables)), 0)
		}
		if uuid == "" {
			uuid = fresh.UUID
		}
		golden[a+1] = fresh.Tables
		maxCasAcked = append(maxCasAcked, fresh.MaxCas)
		os.RemoveAll(dir)
	}
	// ---- number of crash points
	dir := newDir("full")
	full := runCrashChild(exe, so, history, dir, 0, -1)
	logb, _ := os.ReadFile(dir + ".log")
	W := len(strings.Split(strings.TrimSpace(string(logb)), "\n"))
	os.Remove(dir + ".log")
	os.RemoveAll(dir)
	if len(full.errors) > 0 || full.acks != len(steps) {
		rep.Internal = append(rep.Internal, fmt.Sprintf("%s: full run failed: %v", history, full.errors))
		return
	}
	// ---- every crash point
	type res struct {
		n      int
		acks   int
		dump   crashDump
		err    error
		killed bool
		uuid   string
	}
	jobs := make(chan int)
	results := make(chan res)
	var wg sync.WaitGroup
	for k := 0; k < procs; k++ {
		wg.Add(1)
		go func(k int) {
			defer wg.Done()
			for n := range jobs {
				d := newDir(fmt.Sprintf("c%d", n))
				r := runCrashChild(exe, so, history, d, n, -1)
				// every other crash point is verified through CreateOrOpen instead of ReOpenExisting (once the
				// bucket's creation has been acknowledged: before that CreateOrOpen legitimately creates it)
				mode := "ReOpenExisting"
				if n%2 == 1 && r.acks >= 1 {
					mode = "CreateOrOpen"
				}
				if n%4 >= 2 {
					mode += " closed" // pending expirations fall due while the bucket is closed
				}
				dump, err := runCrashDump(exe, d, mode)
				os.Remove(d + ".log")
				os.RemoveAll(d)
				results <- res{n, r.acks, dump, err, r.killed, r.uuid}
			}
		}(k)
	}
	cut := false
	go func() {
		for n := 1; n <= W+1; n++ {
			if time.Now().After(deadline) {
				cut = true
				break
			}
			jobs <- n
		}
		close(jobs)
		wg.Wait()
		close(results)
	}()
	points, inCall, between := 0, 0, 0
	statesSeen := map[string]bool{}
	for r := range results {
		points++
		if r.err != nil {
			rep.Internal = append(rep.Internal, fmt.Sprintf("%s crash point %d: %v", history, r.n, r.err))
			continue
		}
		a := r.acks
		statesSeen[r.dump.Tables] = true
		what := "the history had completed"
		if a < len(steps) {
			what = fmt.Sprintf("%d calls had returned and %q was in progress", a, steps[a].name)
		}
		if r.dump.OpenErr != "" {
			if a == 0 && (r.dump.OpenErr == "nodir" || strings.Contains(r.dump.OpenErr, "unable to open database file") || strings.Contains(r.dump.OpenErr, "no such file")) {
				between++
				continue // killed before the bucket existed at all: "not at all"
			}
			viol("reopen-after-crash", fmt.Sprintf("killed at write-class system call %d, when %s: the bucket cannot be reopened: %s", r.n, what, r.dump.OpenErr), r.n)
			continue
		}
		next := ""
		if a+1 < len(golden) {
			next = golden[a+1]
		}
		switch r.dump.Tables {
		case golden[a]:
			between++
		case next:
			inCall++
		default:
			viol("atomicity", fmt.Sprintf("killed at write-class system call %d, when %s: the reopened bucket holds neither the state before that call nor the state after it.\nvs before: %s\nvs after: %s", r.n, what, firstDiff(golden[a], r.dump.Tables), firstDiff(next, r.dump.Tables)), r.n)
		}
		if r.uuid != "" && r.dump.UUID != r.uuid {
			// (each run creates its own bucket, so UUIDs differ between runs; within one directory it must not change)
			viol("uuid", fmt.Sprintf("killed at write-class system call %d (%s): the bucket reported UUID %s before the kill and %s after reopening", r.n, what, r.uuid, r.dump.UUID), r.n)
		}
		if r.dump.Expiry != "" && r.dump.Expiry != "ok" {
			viol("pending-expiry", fmt.Sprintf("killed at write-class system call %d (%s): %s", r.n, what, r.dump.Expiry), r.n)
		}
		if r.dump.ProbeErr != "" {
			viol("write-after-reopen", fmt.Sprintf("killed at write-class system call %d (%s): a write after reopening failed: %s", r.n, what, r.dump.ProbeErr), r.n)
		} else if r.dump.NewCas <= r.dump.MaxCas {
			rep.AddViolation(Violation{Prop: "C04", Op: history, Pre: "crash", Field: "cas-after-reopen", Detail: fmt.Sprintf("killed at system call %d: the first CAS after reopening (%d) is not above the highest CAS stored before (%d)", r.n, r.dump.NewCas, r.dump.MaxCas)}, CrashReplay{"crash", history, r.n})
			if rep.Prop == "C10" {
				viol("cas-after-reopen", fmt.Sprintf("killed at system call %d: first CAS after reopening %d <= %d", r.n, r.dump.NewCas, r.dump.MaxCas), r.n)
			}
		}
	}
	if cut {
		rep.Exhaustive = false
		rep.Notes = append(rep.Notes, fmt.Sprintf("%s: internal deadline reached after %d of %d crash points", history, points, W+1))
	}
	rep.States += len(statesSeen)
	rep.Transitions += points
	rep.Executions += points + len(steps) + 1
	rep.Extra["crash_"+history] = map[string]any{"calls_in_history": len(steps), "write_class_syscalls": W, "crash_points_run": points, "found_state_before_interrupted_call": between, "found_state_after_interrupted_call": inCall, "distinct_recovered_states": len(statesSeen)}
	var names []string
	for _, s := range steps {
		names = append(names, s.name)
	}
	rep.AddSample(map[string]any{"history": history, "calls": names, "crash_points": W + 1})
	_ = sort.Strings
}

func VerifSoDir() string {
	if d := os.Getenv("VERIF_BIN"); d != "" {
		return d
	}
	return "/verif/bin"
}

// ReplayCrash re-runs one crash point three times.
func ReplayCrash(w Witness) int {
	var rp CrashReplay
	_ = json.Unmarshal(w.Replay, &rp)
	rep := NewReport(w.Prop, "quick")
	exe, _ := os.Executable()
	so := filepath.Join(VerifSoDir(), "crashpoint.so")
	for i := 0; i < 3; i++ {
		dir := filepath.Join(ScratchRoot, fmt.Sprintf("replay%d", i))
		_ = os.RemoveAll(dir)
		_ = os.MkdirAll(dir, 0o755)
		r := runCrashChild(exe, so, rp.History, dir, rp.CrashAt, -1)
		mode := "ReOpenExisting"
		if rp.CrashAt%2 == 1 && r.acks >= 1 {
			mode = "CreateOrOpen"
		}
		if rp.CrashAt%4 >= 2 {
			mode += " closed"
		}
		d, err := runCrashDump(exe, dir, mode)
		fmt.Printf("run %d: history %s killed at call %d after %d acks; reopen: err=%v openErr=%q expiry=%q\n%s\n", i, rp.History, rp.CrashAt, r.acks, err, d.OpenErr, d.Expiry, d.Tables)
		os.RemoveAll(dir)
	}
	_ = rep
	fmt.Println("(compare with the golden states by running the check itself)")
	return 0
}
