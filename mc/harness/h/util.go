package h

import "os"

func removeAll(p string) {
	if p != "" {
		_ = os.RemoveAll(p)
	}
}

func quiesce() { vrtQuiesce() }
