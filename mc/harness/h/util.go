package h

import (
	"fmt"
	"os"
	"sort"
	"strings"

	"github.com/couchbaselabs/rosmar"
)

func removeAll(p string) {
	if p != "" {
		_ = os.RemoveAll(p)
	}
}

func quiesce() { vrtQuiesce() }

// CacheState abstracts the lazily filled name -> collection caches (of a handle and of the registry's
// canonical bucket) to what can matter later: for every cached name whether the cached id is still the
// collection's id ("ok") or belongs to a dropped incarnation ("stale").
func CacheState(b *rosmar.Bucket) string {
	d, err := rosmar.VerifDumpAll(b)
	if err != nil {
		return "?"
	}
	ids := map[string]int64{}
	for _, c := range d.Collections {
		ids[c.Name] = c.ID
	}
	one := func(m map[string]uint32) string {
		var out []string
		for name, id := range m {
			st := "stale"
			if real, ok := ids[name]; ok && real-1 == int64(id) {
				st = "ok"
			}
			out = append(out, name+"="+st)
		}
		sort.Strings(out)
		return strings.Join(out, ",")
	}
	h, c := rosmar.VerifCollectionCaches(b)
	// the ids themselves: a collection that was dropped and created again is a different collection
	// (new id) even when it is empty again - later behaviour may depend on it
	var gen []string
	for name, id := range ids {
		gen = append(gen, fmt.Sprintf("%s:%d", name, id))
	}
	sort.Strings(gen)
	return strings.Join(gen, ",") + "|" + one(h) + "|" + one(c)
}
