package h

import (
	"encoding/json"
	"fmt"
	"sort"
	"strings"
	"time"

	sgbucket "github.com/couchbase/sg-bucket"
	"github.com/couchbaselabs/rosmar"
	"github.com/couchbaselabs/rosmar/vrt"
)

// ---- sixth round: (W-) a non-stale view equals the map over the current documents whatever the
// interleaving of writers and index updates (C12 under concurrency); (L-…-purge) read-modify-write
// loops against delete + purge; (H-reopen) a bucket reopened with a stored high-water mark above a
// fresh clock, racing a writer on another bucket.

const wMapFn = `function(doc, meta) { if (doc.v !== undefined) { emit(doc.v, meta.id); } }`

func wViewRows(c *rosmar.Collection, params map[string]any) string {
	res, err := c.View(ctx, "dd", "v", params)
	if err != nil {
		return "err:" + ErrClass(err)
	}
	var rows []string
	for _, r := range res.Rows {
		k, _ := json.Marshal(r.Key)
		rows = append(rows, fmt.Sprintf("%s=%s", k, r.ID))
	}
	return strings.Join(rows, ",")
}

// wExpected evaluates the map function in Go over the stored rows: numeric v ascending, then id.
func wExpected(b *rosmar.Bucket) string {
	d, err := rosmar.VerifDumpAll(b)
	if err != nil {
		return "dump error"
	}
	type kv struct {
		v  float64
		id string
	}
	var out []kv
	for _, r := range d.Docs {
		if r.Collection != "sc.A" || !r.HasValue {
			continue
		}
		var m map[string]any
		if json.Unmarshal(r.Value, &m) != nil {
			continue
		}
		if v, ok := m["v"].(float64); ok {
			out = append(out, kv{v, r.Key})
		}
	}
	sort.Slice(out, func(i, j int) bool {
		if out[i].v != out[j].v {
			return out[i].v < out[j].v
		}
		return out[i].id < out[j].id
	})
	var rows []string
	for _, e := range out {
		k, _ := json.Marshal(e.v)
		rows = append(rows, fmt.Sprintf("%s=%s", k, e.id))
	}
	return strings.Join(rows, ",")
}

func init() {
	setup := func(w *SWorld) {
		c := w.A[0]
		must(c.Set("k", 0, nil, []byte(`{"v":1}`)))
		must(c.Set("j", 0, nil, []byte(`{"v":2}`)))
		must(c.PutDDoc(ctx, "dd", &sgbucket.DesignDoc{Views: sgbucket.ViewMap{"v": sgbucket.ViewDef{Map: wMapFn}}}))
		_ = wViewRows(c, nil) // the index exists and is current
	}
	writers := map[string]SOp{
		"set": {Name: "Set k", Do: func(w *SWorld, st *TState) (string, []uint64) {
			return ec(w.C(st.T).Set("k", 0, nil, []byte(`{"v":10}`))), nil
		}},
		"delete": {Name: "Delete k", Do: func(w *SWorld, st *TState) (string, []uint64) { return ec(w.C(st.T).Delete("k")), nil }},
		"add": {Name: "Add n", Do: func(w *SWorld, st *TState) (string, []uint64) {
			_, err := w.C(st.T).Add("n", 0, []byte(`{"v":5}`))
			return ec(err), nil
		}},
		"update": {Name: "Update k", Do: func(w *SWorld, st *TState) (string, []uint64) {
			_, err := w.C(st.T).Update("k", 0, func(cur []byte) ([]byte, *uint32, bool, error) { return []byte(`{"v":11}`), nil, false, nil })
			return ec(err), nil
		}},
		"wwx": {Name: "WriteWithXattrs n", Do: func(w *SWorld, st *TState) (string, []uint64) {
			_, err := w.C(st.T).WriteWithXattrs(ctx, "n", 0, 0, []byte(`{"v":6}`), map[string][]byte{"_s": []byte(`{"a":1}`)}, nil, nil)
			return ec(err), nil
		}},
	}
	setJ := SOp{Name: "Set j", Do: func(w *SWorld, st *TState) (string, []uint64) {
		return ec(w.C(st.T).Set("j", 0, nil, []byte(`{"v":20}`))), nil
	}}
	view := SOp{Name: "View", Do: func(w *SWorld, st *TState) (string, []uint64) { return wViewRows(w.C(st.T), nil), nil }}
	for _, wn := range []string{"set", "delete", "add", "update", "wwx"} {
		name := "W-" + wn + "-vs-set+view"
		check := func(name string) func(w *SWorld, ops []OpRec, final string) []Violation {
			return func(w *SWorld, ops []OpRec, final string) []Violation {
				got, want := wViewRows(w.A[0], nil), wExpected(w.H[0])
				if got != want {
					return []Violation{{Prop: "C12", Op: name, Pre: "sched", Field: "final-view", Detail: fmt.Sprintf("at quiescence the non-stale view returns [%s]; the map function over the stored documents gives [%s]", got, want)}}
				}
				return nil
			}
		}
		variants(Scenario{Name: name, Prop: []string{"C12"}, Lin: true, Keys: []string{"k", "j", "n"}, Setup: setup,
			Threads: [][]SOp{{writers[wn]}, {setJ, view}}, Check: check(name)}, 1, 2)
		name3 := "W-" + wn + "-set-view"
		variants(Scenario{Name: name3, Prop: []string{"C12"}, Lin: true, Keys: []string{"k", "j", "n"}, Setup: setup, ThoroughOnly: wn != "set",
			Threads: [][]SOp{{writers[wn]}, {setJ}, {view}}, Check: check(name3)}, 2)
	}
}

// ---- read-modify-write loops against delete + purge of the version they read --------------------

func init() {
	setup := func(w *SWorld) {
		_, err := w.A[0].WriteWithXattrs(ctx, "k", 0, 0, []byte(`{"a":1,"n":{"z":1}}`), map[string][]byte{"_s": []byte(`{"n":0}`)}, nil, nil)
		must(err)
	}
	delPurge := []SOp{
		{Name: "Delete k", Do: func(w *SWorld, st *TState) (string, []uint64) { return ec(w.C(st.T).Delete("k")), nil }},
		{Name: "PurgeTombstones", Do: func(w *SWorld, st *TState) (string, []uint64) {
			n, err := w.H[st.T%len(w.H)].PurgeTombstones()
			return fmt.Sprintf("%d/%s", n, ec(err)), nil
		}},
	}
	loops := map[string]SOp{
		"writesubdoc": {Name: "WriteSubDoc w", Do: func(w *SWorld, st *TState) (string, []uint64) {
			_, err := w.C(st.T).WriteSubDoc(ctx, "k", "w", 0, []byte(`7`))
			return ec(err), nil
		}},
		"subdocinsert": {Name: "SubdocInsert w", Do: func(w *SWorld, st *TState) (string, []uint64) {
			return ec(w.C(st.T).SubdocInsert(ctx, "k", "w", 0, 7)), nil
		}},
		"update": {Name: "Update k", Do: func(w *SWorld, st *TState) (string, []uint64) {
			var shown string
			_, err := w.C(st.T).Update("k", 0, func(cur []byte) ([]byte, *uint32, bool, error) {
				shown = string(cur)
				return []byte(fmt.Sprintf(`{"u":%d}`, len(cur))), nil, false, nil
			})
			return fmt.Sprintf("%s shown=%q", ec(err), shown), nil
		}},
		"wux": {Name: "WriteUpdateWithXattrs k", Do: func(w *SWorld, st *TState) (string, []uint64) {
			var shown string
			_, err := w.C(st.T).WriteUpdateWithXattrs(ctx, "k", []string{"_s"}, 0, nil, &sgbucket.MutateInOptions{}, func(doc []byte, x map[string][]byte, cas uint64) (sgbucket.UpdatedDoc, error) {
				shown = fmt.Sprintf("%q/%q", doc, x["_s"])
				return sgbucket.UpdatedDoc{Doc: []byte(fmt.Sprintf(`{"u":%d}`, len(doc))), Xattrs: map[string][]byte{"_s": []byte(fmt.Sprintf(`{"seen":%d}`, len(x["_s"])))}}, nil
			})
			return fmt.Sprintf("%s shown=%s", ec(err), shown), nil
		}},
		"incr": {Name: "Incr k", Do: func(w *SWorld, st *TState) (string, []uint64) {
			v, err := w.C(st.T).Incr("k", 1, 100, 0)
			return fmt.Sprintf("%d/%s", v, ec(err)), nil
		}},
	}
	for _, ln := range []string{"writesubdoc", "subdocinsert", "update", "wux", "incr"} {
		props := []string{"C03"}
		if strings.HasPrefix(ln, "writesubdoc") || strings.HasPrefix(ln, "subdocinsert") {
			props = []string{"C18", "C03"}
		}
		variants(Scenario{Name: "L-" + ln + "-vs-delete-purge", Prop: props, Lin: true, Setup: setup,
			Threads: [][]SOp{{loops[ln]}, delPurge}}, 1, 2)
	}
}

// ---- C04: reopen with a stored mark above a fresh clock, racing a writer elsewhere ----------------

func init() {
	for _, v := range []struct {
		name string
		wall int64 // today's wall clock relative to yesterday's (when b1 was written)
	}{{"H-reopen-vs-writer/clock-behind/disk", -int64(time.Hour)}, {"H-reopen-vs-writer/clock-ahead/disk", int64(time.Hour)}} {
		registerReopenVsWriter(v.name, v.wall)
	}
}

func registerReopenVsWriter(name string, wall int64) {
	write := func(which int, key string) SOp {
		return SOp{Name: fmt.Sprintf("Set b%d/%s", which+1, key), Do: func(w *SWorld, st *TState) (string, []uint64) {
			if which >= len(w.Extra) || w.Extra[which] == nil {
				return "nohandle", nil
			}
			cas, err := coll(w.Extra[which], NameA).Update(key, 0, func([]byte) ([]byte, *uint32, bool, error) { return []byte(`{"x":1}`), nil, false, nil })
			return fmt.Sprintf("%s «0»", ec(err)), []uint64{cas}
		}}
	}
	RegisterScenario(&Scenario{Name: name, Prop: []string{"C04"}, Disk: true, NoOpen: true,
		Setup: func(w *SWorld) {
			// "yesterday's process": b1 written when the clock was an hour ahead of where it is now
			vrt.SetClock(vrt.Epoch + int64(time.Hour))
			b, err := rosmar.OpenBucket(BucketURL(w.Cfg, "b1"), "b1", rosmar.CreateNew)
			must(err)
			must(coll(b, NameA).SetRaw("k", 0, nil, []byte("1")))
			d, _ := rosmar.VerifDumpAll(b)
			w.setupMaxCas = d.BucketLastCas
			b.Close(ctx)
			// "today's process": fresh clock state, wall clock behind the stored mark; b2 is already open
			rosmar.VerifResetHLC()
			vrt.SetClock(vrt.Epoch + int64(time.Hour) + wall)
			b2, err := rosmar.OpenBucket(BucketURL(w.Cfg, "b2"), "b2", rosmar.CreateNew)
			must(err)
			_ = coll(b2, NameA) // opened, but nothing written yet: today's clock has not handed out a CAS so far
			w.Extra = append(w.Extra, nil, b2)
		},
		Threads: [][]SOp{
			{{Name: "Reopen b1", Do: func(w *SWorld, st *TState) (string, []uint64) {
				b, err := rosmar.OpenBucket(BucketURL(w.Cfg, "b1"), "b1", rosmar.ReOpenExisting)
				if err != nil {
					return "err:" + err.Error(), nil
				}
				w.Extra[0] = b
				return "ok", nil
			}}, write(0, "k")},
			{write(1, "k"), write(1, "k")},
			{write(1, "j")},
		},
		Check: func(w *SWorld, ops []OpRec, final string) []Violation {
			var vs []Violation
			seen := map[uint64]string{}
			reopened := -1
			for _, o := range ops {
				if o.Name == "Reopen b1" {
					reopened = o.Ret
				}
			}
			for _, o := range ops {
				if len(o.Cas) == 0 || o.Cas[0] == 0 {
					continue
				}
				id := fmt.Sprintf("%s (t%d.%d)", o.Name, o.Thread, o.Index)
				if other, dup := seen[o.Cas[0]]; dup {
					vs = append(vs, Violation{Prop: "C04", Op: name, Pre: "sched", Field: "duplicate", Detail: fmt.Sprintf("%s and %s were both stamped %d", other, id, o.Cas[0])})
				}
				seen[o.Cas[0]] = id
				// once the reopen has returned, every CAS handed out by any bucket is above what b1 handed out before it was closed
				if reopened >= 0 && o.Inv > reopened && o.Cas[0] <= w.setupMaxCas {
					vs = append(vs, Violation{Prop: "C04", Op: name, Pre: "sched", Field: "below-stored-mark", Detail: fmt.Sprintf("%s was stamped %d after b1 (stored mark %d) had been reopened", id, o.Cas[0], w.setupMaxCas)})
				}
			}
			for _, a := range ops {
				for _, b := range ops {
					if len(a.Cas) == 0 || len(b.Cas) == 0 || a.Cas[0] == 0 || b.Cas[0] == 0 {
						continue
					}
					if a.Ret < b.Inv && a.Cas[0] >= b.Cas[0] {
						vs = append(vs, Violation{Prop: "C04", Op: name, Pre: "sched", Field: "order", Detail: fmt.Sprintf("%s (t%d) returned CAS %d before %s (t%d) was called, which was stamped %d", a.Name, a.Thread, a.Cas[0], b.Name, b.Thread, b.Cas[0])})
					}
				}
			}
			return vs
		}})
}

// ---- C14 under concurrency: writers, touches and the sweep all arm one timer ------------------------

func init() {
	setExp := func(key string, rel uint32) SOp {
		return SOp{Name: fmt.Sprintf("Set %s exp+%d", key, rel), Do: func(w *SWorld, st *TState) (string, []uint64) {
			return ec(w.C(st.T).Set(key, rel, nil, []byte(`{"v":1}`))), nil
		}}
	}
	touch := func(key string, rel uint32) SOp {
		return SOp{Name: fmt.Sprintf("Touch %s exp+%d", key, rel), Do: func(w *SWorld, st *TState) (string, []uint64) {
			_, err := w.C(st.T).Touch(key, rel)
			return ec(err), nil
		}}
	}
	advance := func(secs int) SOp {
		return SOp{Name: fmt.Sprintf("clock +%ds", secs), Do: func(w *SWorld, st *TState) (string, []uint64) {
			vrt.Advance(time.Duration(secs) * time.Second)
			return "ok", nil
		}}
	}
	// after the race: step the clock forward; every document must be a tombstone within 5 s of its stored
	// expiry and readable before it - without any client call in between (only row reads)
	check := func(name string) func(w *SWorld, ops []OpRec, final string) []Violation {
		return func(w *SWorld, ops []OpRec, final string) []Violation {
			var vs []Violation
			for step := 0; step < 12; step++ {
				vrt.Advance(5 * time.Second)
				vrt.Quiesce()
				d, err := rosmar.VerifDumpAll(w.H[0])
				if err != nil {
					return vs
				}
				now := NowSecs()
				for _, r := range d.Docs {
					if r.Collection != "sc.A" || !r.HasValue || r.Exp == 0 {
						continue
					}
					if now >= r.Exp+slackSecs {
						vs = append(vs, Violation{Prop: "C14", Op: name, Pre: "sched", Field: "outlived", Detail: fmt.Sprintf("%s outlived its expiry: expiry %d, now %d, timers pending %v", r.Key, r.Exp, now, vrt.PendingTimers())})
						return vs
					}
				}
			}
			return vs
		}
	}
	seed := func(w *SWorld) { must(w.A[0].Set("d", 5, nil, []byte(`{"v":0}`))) }
	// the sweep against a client that rewrites the very document that is due: whichever comes first, a
	// write that was acknowledged after the deadline leaves a live document (the sweep is "delete if due")
	rewrite := func(name string, op SOp) {
		variants(Scenario{Name: name, Prop: []string{"C14"}, Keys: []string{"d"}, Setup: seed, Threads: [][]SOp{{advance(6)}, {op}},
			Check: func(w *SWorld, ops []OpRec, final string) []Violation {
				acked := false
				for _, o := range ops {
					if o.Name == op.Name && o.Out == "" {
						acked = true
					}
				}
				vrt.Quiesce()
				d, err := rosmar.VerifDumpAll(w.H[0])
				if err != nil || !acked {
					return nil
				}
				if r := rowsOf(d)["sc.A/d"]; r == nil || !r.HasValue {
					return []Violation{{Prop: "C14", Op: name, Pre: "sched", Field: "swept-after-rewrite", Detail: fmt.Sprintf("%s was acknowledged while the expiry sweep was running, yet the document ended up deleted by the sweep: %s", op.Name, final)}}
				}
				return nil
			}}, 1, 2)
	}
	rewrite("E-sweep-vs-rewrite-noexp", setExp("d", 0))
	rewrite("E-sweep-vs-rewrite-later", setExp("d", 3600))
	rewrite("E-sweep-vs-touch-later", touch("d", 3600))
	for _, sc := range []struct {
		name    string
		setup   func(w *SWorld)
		threads [][]SOp
	}{
		{"E-far-vs-near", nil, [][]SOp{{setExp("k", 30)}, {setExp("j", 10)}}},
		{"E-near-vs-far-vs-touch", setupSet("t", `{"v":2}`), [][]SOp{{setExp("k", 10)}, {setExp("j", 30)}, {touch("t", 20)}}},
		{"E-sweep-vs-writer", seed, [][]SOp{{advance(6)}, {setExp("j", 8)}}},
		{"E-sweep-vs-touch-earlier", func(w *SWorld) { seed(w); must(w.A[0].Set("t", 40, nil, []byte(`{"v":2}`))) }, [][]SOp{{advance(6)}, {touch("t", 9)}}},
		{"E-sweep-vs-two-writers", seed, [][]SOp{{advance(6)}, {setExp("j", 20)}, {setExp("k", 8)}}},
	} {
		variants(Scenario{Name: sc.name, Prop: []string{"C14"}, Keys: []string{"k", "j", "t", "d"}, Setup: sc.setup, Threads: sc.threads, Check: check(sc.name)}, 1, 2)
	}
}

// ---- retry loops whose callback answers differently per version: nothing of a refused attempt may leak
// into the attempt that is stored (expiry asked for only when shown version "a") ----------------------

func init() {
	setB := SOp{Name: "Set k b", Do: func(w *SWorld, st *TState) (string, []uint64) {
		return ec(w.C(st.T).Set("k", 0, nil, []byte(`{"v":"b"}`))), nil
	}}
	update := SOp{Name: "Update k (expiry only for version a)", Do: func(w *SWorld, st *TState) (string, []uint64) {
		var shown []string
		_, err := w.C(st.T).Update("k", 0, func(cur []byte) ([]byte, *uint32, bool, error) {
			shown = append(shown, string(cur))
			if strings.Contains(string(cur), `"a"`) {
				e := uint32(100)
				return []byte(`{"v":"ua"}`), &e, false, nil
			}
			return []byte(`{"v":"ub"}`), nil, false, nil
		})
		return fmt.Sprintf("%s last shown=%q", ec(err), shown[len(shown)-1]), nil
	}}
	wux := SOp{Name: "WriteUpdateWithXattrs k (expiry only for version a)", Do: func(w *SWorld, st *TState) (string, []uint64) {
		var last string
		_, err := w.C(st.T).WriteUpdateWithXattrs(ctx, "k", []string{"_s"}, 0, nil, &sgbucket.MutateInOptions{}, func(doc []byte, x map[string][]byte, cas uint64) (sgbucket.UpdatedDoc, error) {
			last = string(doc)
			if strings.Contains(string(doc), `"a"`) {
				e := uint32(100)
				return sgbucket.UpdatedDoc{Doc: []byte(`{"v":"wa"}`), Xattrs: map[string][]byte{"_s": []byte(`{"n":1}`)}, Expiry: &e}, nil
			}
			return sgbucket.UpdatedDoc{Doc: []byte(`{"v":"wb"}`), Xattrs: map[string][]byte{"_s": []byte(`{"n":2}`)}}, nil
		})
		return fmt.Sprintf("%s last shown=%q", ec(err), last), nil
	}}
	wuxSpec := SOp{Name: "WriteUpdateWithXattrs k (macro only for version a)", Do: func(w *SWorld, st *TState) (string, []uint64) {
		var last string
		opts := &sgbucket.MutateInOptions{}
		_, err := w.C(st.T).WriteUpdateWithXattrs(ctx, "k", []string{"_s"}, 0, nil, opts, func(doc []byte, x map[string][]byte, cas uint64) (sgbucket.UpdatedDoc, error) {
			last = string(doc)
			if strings.Contains(string(doc), `"a"`) {
				return sgbucket.UpdatedDoc{Doc: []byte(`{"v":"wa"}`), Xattrs: map[string][]byte{"_s": []byte(`{"n":1,"m":"x"}`)},
					Spec: []sgbucket.MacroExpansionSpec{sgbucket.NewMacroExpansionSpec("_s.m", sgbucket.MacroCrc32c)}}, nil
			}
			return sgbucket.UpdatedDoc{Doc: []byte(`{"v":"wb"}`), Xattrs: map[string][]byte{"_s": []byte(`{"n":2,"m":"plain"}`)}}, nil
		})
		return fmt.Sprintf("%s last shown=%q caller's options now hold %d macro specs", ec(err), last, len(opts.MacroExpansion)), nil
	}}
	variants(Scenario{Name: "S12-wux-macro-per-version", Prop: []string{"C03", "C07"}, Lin: true, Setup: setupSet("k", `{"v":"a"}`), Threads: [][]SOp{{wuxSpec}, {setB}}}, 1, 2)
	variants(Scenario{Name: "S12-update-exp-per-version", Prop: []string{"C03"}, Lin: true, Setup: setupSet("k", `{"v":"a"}`), Threads: [][]SOp{{update}, {setB}}}, 1, 2)
	variants(Scenario{Name: "S12-wux-exp-per-version", Prop: []string{"C03", "C07"}, Lin: true, Setup: setupSet("k", `{"v":"a"}`), Threads: [][]SOp{{wux}, {setB}}}, 1, 2)
}
