package main

import (
	"context"
	"fmt"

	"github.com/couchbaselabs/rosmar"
	"github.com/couchbaselabs/rosmar/vrt"
)

func main() {
	vrt.UseVirtualClock(true)
	out := vrt.Run(nil, nil, func() {
		b, err := rosmar.OpenBucket(rosmar.InMemoryURL, "b1", rosmar.CreateOrOpen)
		if err != nil {
			panic(err)
		}
		c := b.DefaultDataStore()
		added, err := c.Add("k", 0, map[string]any{"v": 1})
		fmt.Println("add", added, err)
		v, cas, err := c.GetRaw("k")
		fmt.Println(string(v), cas, err)
		_ = b.CloseAndDelete(context.Background())
	})
	fmt.Printf("%+v\n", out)
}
