package main

import (
	"encoding/json"
	"flag"
	"fmt"
	"os"
	"runtime"
	"time"

	"verif/mc/h"

	"github.com/couchbaselabs/rosmar"

	"github.com/couchbaselabs/rosmar/vrt"
)

func main() {
	if len(os.Args) < 2 {
		fmt.Fprintln(os.Stderr, "usage: vcheck worker | check <prop> <tier> | replay <file>")
		os.Exit(2)
	}
	vrt.UseVirtualClock(true)
	if os.Getenv("VERIF_ROSMAR_LOG") != "" {
		rosmar.SetLogLevel(rosmar.LevelTrace)
		rosmar.LoggingCallback = func(level rosmar.LogLevel, f string, args ...any) {
			fmt.Printf("      [t%d] "+f+"\n", append([]any{vrt.CurrentThreadID()}, args...)...)
		}
	}
	switch os.Args[1] {
	case "worker":
		h.WorkerMain()
	case "check":
		fs := flag.NewFlagSet("check", flag.ExitOnError)
		procs := fs.Int("procs", runtime.NumCPU(), "worker processes")
		budget := fs.Duration("budget", 0, "internal deadline (0 = tier default)")
		_ = fs.Parse(os.Args[4:])
		code := h.RunCheck(os.Args[2], os.Args[3], *procs, *budget)
		h.CleanupScratch()
		os.Exit(code)
	case "racepass":
		reps := 10
		if len(os.Args) > 2 {
			fmt.Sscanf(os.Args[2], "%d", &reps)
		}
		h.RacePassMain(reps)
		h.CleanupScratch()
	case "scenarios":
		for _, n := range h.ScenarioNames("") {
			fmt.Println(n)
		}
	case "crashchild":
		h.CrashChildMain(os.Args[2])
	case "crashdump":
		h.CrashDumpMain(os.Args[2])
	case "replay":
		b, err := os.ReadFile(os.Args[2])
		if err != nil {
			fmt.Fprintln(os.Stderr, err)
			os.Exit(2)
		}
		var w h.Witness
		if err := json.Unmarshal(b, &w); err != nil {
			fmt.Fprintln(os.Stderr, err)
			os.Exit(2)
		}
		code := h.Replay(w)
		h.CleanupScratch()
		os.Exit(code)
	default:
		fmt.Fprintln(os.Stderr, "unknown command", os.Args[1])
		os.Exit(2)
	}
	_ = time.Now
}
