// Package vtime stands in for "time" in the instrumented mirror: the clock is virtual when
// vrt.UseVirtualClock is on, and timers fire only when the harness advances it.
package vtime

import (
	"time"

	"github.com/couchbaselabs/rosmar/vrt"
)

type (
	Duration = time.Duration
	Time     = time.Time
	Month    = time.Month
	Weekday  = time.Weekday
	Location = time.Location
	Timer    = vrt.Timer
)

const (
	Nanosecond  = time.Nanosecond
	Microsecond = time.Microsecond
	Millisecond = time.Millisecond
	Second      = time.Second
	Minute      = time.Minute
	Hour        = time.Hour
	RFC3339     = time.RFC3339
	RFC3339Nano = time.RFC3339Nano
)

var (
	UTC   = time.UTC
	Local = time.Local
)

func Now() Time                                  { return vrt.Now() }
func Since(t Time) Duration                      { return vrt.Now().Sub(t) }
func Until(t Time) Duration                      { return t.Sub(vrt.Now()) }
func Sleep(d Duration)                           { vrt.Sleep(d) }
func AfterFunc(d Duration, f func()) *Timer      { return vrt.AfterFunc(d, f) }
func Unix(sec int64, nsec int64) Time            { return time.Unix(sec, nsec) }
func UnixMilli(ms int64) Time                    { return time.UnixMilli(ms) }
func UnixMicro(us int64) Time                    { return time.UnixMicro(us) }
func ParseDuration(s string) (Duration, error)   { return time.ParseDuration(s) }
func Parse(layout, value string) (Time, error)   { return time.Parse(layout, value) }
func Date(year int, month Month, day, hour, min, sec, nsec int, loc *Location) Time {
	return time.Date(year, month, day, hour, min, sec, nsec, loc)
}
