// Package vsync stands in for "sync" in the instrumented mirror.
package vsync

import (
	"sync"

	"github.com/couchbaselabs/rosmar/vrt"
)

type (
	Mutex     = vrt.Mutex
	Cond      = vrt.Cond
	Locker    = sync.Locker
	Once      = sync.Once
	WaitGroup = sync.WaitGroup
	Map       = sync.Map
	Pool      = sync.Pool
)

// RWMutex is modelled as an exclusive lock (sound: fewer behaviours are allowed to overlap, and
// every acquisition is still a scheduling point).
type RWMutex struct{ vrt.Mutex }

func (m *RWMutex) RLock()   { m.Lock() }
func (m *RWMutex) RUnlock() { m.Unlock() }

func NewCond(l Locker) *Cond { return vrt.NewCond(l) }

func OnceFunc(f func()) func() { return sync.OnceFunc(f) }
