package vrt

import (
	"sort"
	"sync"
	"time"
)

// Virtual clock and timers. The clock is process-global and independent of the scheduler, so that
// the crash child (passthrough, no scheduler) can also run on deterministic time.

var (
	clockMu        sync.Mutex
	virtualClock   bool
	virtualNow     int64 // unix nanoseconds
	timers         []*Timer
	timerSeq       int
)

// Epoch is the instant the virtual clock starts at (2027-01-15T08:00:00Z).
const Epoch int64 = 1_800_000_000 * int64(time.Second)

// UseVirtualClock switches the clock seen by the mirror to virtual time, reset to Epoch.
func UseVirtualClock(on bool) {
	clockMu.Lock()
	virtualClock = on
	virtualNow = Epoch
	timers = nil
	clockMu.Unlock()
}

// ResetClock puts the virtual clock back to Epoch and forgets all timers.
func ResetClock() {
	clockMu.Lock()
	virtualNow = Epoch
	timers = nil
	timerSeq = 0
	clockMu.Unlock()
}

// SetClock sets the virtual clock to an absolute instant without firing timers (it may go backwards).
func SetClock(unixNano int64) {
	clockMu.Lock()
	virtualNow = unixNano
	clockMu.Unlock()
}

func NowNanos() int64 {
	clockMu.Lock()
	defer clockMu.Unlock()
	if !virtualClock {
		return time.Now().UnixNano()
	}
	return virtualNow
}

func Now() time.Time {
	clockMu.Lock()
	defer clockMu.Unlock()
	if !virtualClock {
		return time.Now()
	}
	return time.Unix(0, virtualNow)
}

type Timer struct {
	real     *time.Timer
	f        func()
	deadline int64
	pending  bool
	seq      int
}

func AfterFunc(d time.Duration, f func()) *Timer {
	clockMu.Lock()
	if !virtualClock {
		clockMu.Unlock()
		return &Timer{real: time.AfterFunc(d, f)}
	}
	t := &Timer{f: f, deadline: virtualNow + int64(d), pending: true, seq: timerSeq}
	timerSeq++
	timers = append(timers, t)
	clockMu.Unlock()
	fireDue()
	return t
}

func (t *Timer) Stop() bool {
	if t.real != nil {
		return t.real.Stop()
	}
	clockMu.Lock()
	defer clockMu.Unlock()
	was := t.pending
	t.pending = false
	return was
}

func (t *Timer) Reset(d time.Duration) bool {
	if t.real != nil {
		return t.real.Reset(d)
	}
	clockMu.Lock()
	was := t.pending
	t.pending = true
	t.deadline = virtualNow + int64(d)
	found := false
	for _, o := range timers {
		if o == t {
			found = true
		}
	}
	if !found {
		timers = append(timers, t)
	}
	clockMu.Unlock()
	fireDue()
	return was
}

// PendingTimers returns the deadlines (unix nanoseconds) of armed virtual timers.
func PendingTimers() []int64 {
	clockMu.Lock()
	defer clockMu.Unlock()
	var out []int64
	for _, t := range timers {
		if t.pending {
			out = append(out, t.deadline)
		}
	}
	sort.Slice(out, func(i, j int) bool { return out[i] < out[j] })
	return out
}

// fireDue releases every pending timer whose deadline has passed: its callback becomes a
// controlled goroutine (the scheduler decides when it actually starts), or a native one.
func fireDue() {
	clockMu.Lock()
	var due []*Timer
	rest := timers[:0]
	for _, t := range timers {
		if t.pending && t.deadline <= virtualNow {
			t.pending = false
			due = append(due, t)
		} else if t.pending {
			rest = append(rest, t)
		}
	}
	timers = rest
	clockMu.Unlock()
	sort.Slice(due, func(i, j int) bool {
		if due[i].deadline != due[j].deadline {
			return due[i].deadline < due[j].deadline
		}
		return due[i].seq < due[j].seq
	})
	for _, t := range due {
		f := t.f
		th := Go(f)
		if th != nil {
			th.Name = "timer"
		}
	}
}

// Advance moves the virtual clock forward and releases the timers that become due.
func Advance(d time.Duration) {
	clockMu.Lock()
	virtualNow += int64(d)
	clockMu.Unlock()
	fireDue()
}

func Sleep(d time.Duration) {
	clockMu.Lock()
	v := virtualClock
	clockMu.Unlock()
	if !v {
		time.Sleep(d)
		return
	}
	Advance(d)
	Yield("sleep")
}
