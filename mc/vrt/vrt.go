// Package vrt is the controlled runtime the instrumented rosmar mirror runs on.
//
// With no scheduler attached (passthrough) every shim is a thin wrapper over the real primitive.
// With a scheduler attached (Run) exactly one controlled goroutine executes at a time; every
// synchronisation operation is a scheduling point at which the explorer chooses who runs next.
package vrt

import (
	"fmt"
	"runtime"
	"runtime/debug"
	"sort"
	"strings"
	"sync"
)

// ---------------------------------------------------------------------------------------------
// threads and operations

type opKind int

const (
	opStart  opKind = iota // freshly spawned, always enabled
	opLock                 // waiting to acquire a Mutex
	opWait                 // waiting on a Cond (enabled once signalled)
	opRecv                 // waiting to receive from a channel
	opJoin                 // waiting for a set of threads to finish
	opIdle                 // waiting for quiescence of every other thread
	opYield                // pure scheduling point, always enabled
	opExited
)

func (k opKind) String() string {
	return [...]string{"start", "lock", "wait", "recv", "join", "idle", "yield", "exited"}[k]
}

type Thread struct {
	ID     int
	Name   string
	wake   chan struct{}
	kind   opKind
	mu     *Mutex
	ticket *condTicket
	poll   func() bool
	join   []*Thread
	done   bool
	sched  *Sched
	label  string // description of the pending operation, for traces
	exited chan struct{}
}

// Point is one scheduling decision with more than zero enabled threads.
type Point struct {
	Enabled        []int  // thread ids in canonical order (running thread first if enabled)
	Chosen         int    // index into Enabled
	RunningEnabled bool   // the previously running thread could have continued
	Label          string // what the chosen thread was about to do
}

type Outcome struct {
	Points    []Point
	Deadlock  bool
	Panic     string // first recovered panic (value + stack), "" if none
	PanicLocks []string
	Blocked   []string // descriptions of the threads blocked at a deadlock
	Leaked    []string // threads still alive (blocked) when main finished
	HeldLocks []string // mutexes still locked when the execution ended
	Steps     int
	Diverged  string // non-empty: replay prefix did not fit (hard internal error)
	StepLimit bool   // the step horizon was hit (possible livelock)
	Aborted   bool
}

type Sched struct {
	threads []*Thread
	cur     *Thread
	prefix  []int
	out     Outcome
	mainDone chan struct{}
	aborting bool
	maxSteps int
	// NoYield, if set and returning true, suppresses preemption of the running thread at a point
	// where its own operation is enabled (single-connection in-memory buckets, DESIGN §2.2).
	NoYield func() bool
	// ChooseHook, if set, is consulted after the prefix is exhausted instead of taking choice 0.
	ChooseHook func(p *Point) int
	locks   map[*Mutex]string
	aborter *Thread
}

var active *Sched

func current() *Sched { return active }

// Active reports whether a scheduler is attached.
func Active() bool { return active != nil }

// Run executes main under a fresh scheduler, replaying prefix and then taking default choices.
func Run(prefix []int, opts *Sched, main func()) *Outcome {
	s := &Sched{prefix: prefix, mainDone: make(chan struct{}), maxSteps: 200000, locks: map[*Mutex]string{}}
	if opts != nil {
		s.NoYield = opts.NoYield
		s.ChooseHook = opts.ChooseHook
		if opts.maxSteps > 0 {
			s.maxSteps = opts.maxSteps
		}
	}
	if active != nil {
		panic("vrt.Run: nested scheduler")
	}
	active = s
	t := s.newThread("main")
	s.cur = t
	go s.threadBody(t, main)
	t.wake <- struct{}{}
	<-s.mainDone
	// main finished, or the execution was aborted (deadlock, panic, divergence, step limit)
	s.finish()
	active = nil
	return &s.out
}

func (s *Sched) newThread(name string) *Thread {
	t := &Thread{ID: len(s.threads), Name: name, wake: make(chan struct{}, 1), kind: opStart, sched: s, exited: make(chan struct{})}
	s.threads = append(s.threads, t)
	return t
}

type abortSignal struct{}

func (s *Sched) threadBody(t *Thread, f func()) {
	defer close(t.exited)
	<-t.wake
	defer func() {
		r := recover()
		if r != nil {
			if _, ok := r.(abortSignal); !ok && s.out.Panic == "" && !s.aborting {
				s.out.Panic = fmt.Sprintf("panic in thread %d (%s): %v\n%s", t.ID, t.Name, r, trimStack(debug.Stack()))
				for m, n := range s.locks {
					if m.locked && m.owner == t {
						s.out.PanicLocks = append(s.out.PanicLocks, n)
					}
				}
				sort.Strings(s.out.PanicLocks)
			}
		}
		t.done = true
		t.kind = opExited
		if s.aborting {
			return
		}
		if r != nil {
			s.abort(t)
			return
		}
		if t.ID == 0 {
			// main returned: the execution is over; everything still alive is a leak
			close(s.mainDone)
			return
		}
		s.dispatch(nil)
	}()
	if s.aborting {
		return
	}
	f()
}

func trimStack(b []byte) string {
	lines := strings.Split(string(b), "\n")
	var keep []string
	for i := 0; i < len(lines); i++ {
		l := lines[i]
		if strings.Contains(l, "runtime/debug.Stack") || strings.Contains(l, "vrt.(*Sched).threadBody.func") || strings.HasPrefix(l, "panic(") {
			i++
			continue
		}
		keep = append(keep, l)
		if len(keep) > 40 {
			break
		}
	}
	return strings.Join(keep, "\n")
}

// abort ends the execution; by is the thread on whose goroutine abort is called (it is not parked).
func (s *Sched) abort(by *Thread) {
	if s.aborting {
		return
	}
	s.aborting = true
	s.aborter = by
	s.out.Aborted = true
	close(s.mainDone)
}

// finish runs on the goroutine that called Run, after mainDone: unwinds every parked thread.
func (s *Sched) finish() {
	if s.aborter != nil {
		<-s.aborter.exited // let the aborting thread finish unwinding first
	}
	if !s.out.Aborted {
		<-s.threads[0].exited
		// normal end: main returned. Record leaks, then unwind the rest.
		for _, t := range s.threads {
			if !t.done {
				s.out.Leaked = append(s.out.Leaked, fmt.Sprintf("thread %d (%s) blocked in %s %s", t.ID, t.Name, t.kind, t.label))
			}
		}
	}
	for m, n := range s.locks {
		if m.locked {
			owner := "?"
			if m.owner != nil {
				owner = fmt.Sprintf("thread %d (%s)", m.owner.ID, m.owner.Name)
			}
			s.out.HeldLocks = append(s.out.HeldLocks, n+" held by "+owner)
		}
	}
	sort.Strings(s.out.HeldLocks)
	s.aborting = true
	for i := 0; i < len(s.threads); i++ { // threads cannot be added once aborting is set
		t := s.threads[i]
		if t == s.aborter {
			continue
		}
		select {
		case <-t.exited:
			continue
		default:
		}
		t.wake <- struct{}{}
		<-t.exited
	}
	// release every shim mutex so that objects shared with later executions are clean
	for m := range s.locks {
		m.locked = false
		m.owner = nil
	}
}

func (t *Thread) enabled(s *Sched) bool {
	switch t.kind {
	case opStart, opYield:
		return true
	case opLock:
		return !t.mu.locked
	case opWait:
		return t.ticket.signalled
	case opRecv:
		return t.poll()
	case opJoin:
		for _, j := range t.join {
			if !j.done {
				return false
			}
		}
		return true
	case opIdle:
		for _, o := range s.threads {
			if o != t && !o.done && o.kind != opIdle && o.enabledNoIdle(s) {
				return false
			}
		}
		return true
	}
	return false
}

func (t *Thread) enabledNoIdle(s *Sched) bool {
	if t.kind == opIdle {
		return false
	}
	return t.enabled(s)
}

// point parks the calling thread with the pending operation already recorded in s.cur and returns
// when the scheduler lets it proceed.
func (s *Sched) point() {
	t := s.cur
	if s.aborting {
		panic(abortSignal{})
	}
	s.dispatch(t)
}

// dispatch chooses the next thread. self is the calling thread (nil when it has exited).
func (s *Sched) dispatch(self *Thread) {
	s.out.Steps++
	if s.out.Steps > s.maxSteps {
		s.out.StepLimit = true
		s.abortFrom(self)
		return
	}
	var enabled []*Thread
	runningEnabled := false
	if self != nil && self.enabled(s) {
		enabled = append(enabled, self)
		runningEnabled = true
	}
	if !(runningEnabled && s.NoYield != nil && s.NoYield()) {
		for _, t := range s.threads {
			if t != self && !t.done && t.enabled(s) {
				enabled = append(enabled, t)
			}
		}
	}
	if len(enabled) == 0 {
		s.out.Deadlock = true
		for _, t := range s.threads {
			if !t.done {
				s.out.Blocked = append(s.out.Blocked, fmt.Sprintf("thread %d (%s) blocked in %s %s", t.ID, t.Name, t.kind, t.label))
			}
		}
		s.abortFrom(self)
		return
	}
	choice := 0
	if len(enabled) > 1 {
		idx := len(s.out.Points)
		p := Point{RunningEnabled: runningEnabled}
		for _, t := range enabled {
			p.Enabled = append(p.Enabled, t.ID)
		}
		if idx < len(s.prefix) {
			choice = s.prefix[idx]
			if choice < 0 || choice >= len(enabled) {
				s.out.Diverged = fmt.Sprintf("replay divergence at point %d: choice %d of %d enabled", idx, choice, len(enabled))
				s.abortFrom(self)
				return
			}
		} else if s.ChooseHook != nil {
			choice = s.ChooseHook(&p)
		}
		p.Chosen = choice
		p.Label = fmt.Sprintf("t%d:%s %s", enabled[choice].ID, enabled[choice].kind, enabled[choice].label)
		s.out.Points = append(s.out.Points, p)
	}
	next := enabled[choice]
	s.cur = next
	if next == self {
		return
	}
	next.wake <- struct{}{}
	if self != nil {
		<-self.wake
		if s.aborting {
			panic(abortSignal{})
		}
	}
}

func (s *Sched) abortFrom(self *Thread) {
	by := self
	if by == nil {
		by = s.cur // an exiting thread running its deferred dispatch
	}
	s.abort(by)
	if self != nil {
		panic(abortSignal{})
	}
}

// ---------------------------------------------------------------------------------------------
// public operations used by the rewritten code and by harnesses

// Go spawns a controlled goroutine (or a native one in passthrough mode).
func Go(f func()) *Thread {
	s := current()
	if s == nil {
		go f()
		return nil
	}
	if s.aborting {
		return nil
	}
	t := s.newThread(callerName())
	go s.threadBody(t, f)
	return t
}

// GoNamed is Go with an explicit thread name (harness threads).
func GoNamed(name string, f func()) *Thread {
	t := Go(f)
	if t != nil {
		t.Name = name
	}
	return t
}

func callerName() string {
	pc, _, _, ok := runtime.Caller(2)
	if !ok {
		return "?"
	}
	n := runtime.FuncForPC(pc).Name()
	if i := strings.LastIndex(n, "/"); i >= 0 {
		n = n[i+1:]
	}
	return n
}

// Join blocks until the given threads have finished.
func Join(ts ...*Thread) {
	s := current()
	if s == nil {
		return
	}
	t := s.cur
	t.kind, t.join, t.label = opJoin, ts, ""
	s.point()
	t.kind = opYield
}

// Quiesce blocks until every other controlled thread is blocked or finished.
func Quiesce() {
	s := current()
	if s == nil {
		return
	}
	t := s.cur
	t.kind, t.label = opIdle, ""
	s.point()
	t.kind = opYield
}

// Yield is a pure scheduling point.
func Yield(label string) {
	s := current()
	if s == nil {
		return
	}
	t := s.cur
	t.kind, t.label = opYield, label
	s.point()
}

// Recv receives from ch; under the scheduler it is enabled iff a non-blocking receive succeeds.
func Recv[T any](ch <-chan T) T {
	s := current()
	if s == nil {
		return <-ch
	}
	t := s.cur
	var val T
	got := false
	t.kind, t.label = opRecv, "chan"
	t.poll = func() bool {
		if got {
			return true
		}
		select {
		case v := <-ch:
			val, got = v, true
			return true
		default:
			return false
		}
	}
	s.point()
	t.kind, t.poll = opYield, nil
	return val
}

// LiveThreads returns descriptions of controlled threads that have not finished (excluding the caller).
func LiveThreads() []string {
	s := current()
	if s == nil {
		return nil
	}
	var out []string
	for _, t := range s.threads {
		if !t.done && t != s.cur {
			out = append(out, fmt.Sprintf("thread %d (%s) in %s %s", t.ID, t.Name, t.kind, t.label))
		}
	}
	return out
}

// CurrentThreadID returns the id of the running controlled thread, or -1.
func CurrentThreadID() int {
	s := current()
	if s == nil || s.cur == nil {
		return -1
	}
	return s.cur.ID
}

// Step returns the number of scheduling steps taken so far (a logical timestamp).
func Step() int {
	s := current()
	if s == nil {
		return 0
	}
	return s.out.Steps
}

// MapKeys returns the keys of m in a deterministic (sorted by printed form) order.
func MapKeys[K comparable, V any](m map[K]V) []K {
	keys := make([]K, 0, len(m))
	for k := range m {
		keys = append(keys, k)
	}
	sort.Slice(keys, func(i, j int) bool { return fmt.Sprint(keys[i]) < fmt.Sprint(keys[j]) })
	return keys
}

// ---------------------------------------------------------------------------------------------
// Mutex / Cond

type Mutex struct {
	m      sync.Mutex
	locked bool
	owner  *Thread
}

func (m *Mutex) Lock() {
	s := current()
	if s == nil {
		m.m.Lock()
		return
	}
	t := s.cur
	if _, ok := s.locks[m]; !ok {
		s.locks[m] = fmt.Sprintf("mutex#%d(%s)", len(s.locks), lockSite())
	}
	t.kind, t.mu, t.label = opLock, m, s.locks[m]
	s.point()
	m.locked, m.owner = true, t
	t.kind, t.mu = opYield, nil
}

func (m *Mutex) TryLock() bool {
	s := current()
	if s == nil {
		return m.m.TryLock()
	}
	// whether the lock is free depends on the schedule: a scheduling point like Lock, never blocking
	s.cur.kind, s.cur.label = opYield, "trylock"
	s.point()
	if m.locked {
		return false
	}
	m.locked, m.owner = true, s.cur
	if _, ok := s.locks[m]; !ok {
		s.locks[m] = fmt.Sprintf("mutex#%d(%s)", len(s.locks), lockSite())
	}
	return true
}

// UnlockPoints adds a scheduling point before every Unlock. Set (by generated code) only when the
// instrumented source uses TryLock, whose result depends on who is inside a critical section.
var UnlockPoints bool

func (m *Mutex) Unlock() {
	if UnlockPoints {
		if s := current(); s != nil && !s.aborting {
			s.cur.kind, s.cur.label = opYield, "unlock"
			s.point()
		}
	}
	s := current()
	if s == nil {
		m.m.Unlock()
		return
	}
	if s.aborting {
		m.locked, m.owner = false, nil
		return
	}
	if !m.locked {
		panic("sync: unlock of unlocked mutex")
	}
	m.locked, m.owner = false, nil
}

func lockSite() string {
	for skip := 2; skip < 8; skip++ {
		pc, _, line, ok := runtime.Caller(skip)
		if !ok {
			break
		}
		n := runtime.FuncForPC(pc).Name()
		if strings.Contains(n, "/vrt.") || strings.Contains(n, "/vrt/") {
			continue
		}
		if i := strings.LastIndex(n, "/"); i >= 0 {
			n = n[i+1:]
		}
		return fmt.Sprintf("%s:%d", n, line)
	}
	return "?"
}

type Locker = sync.Locker

type condTicket struct{ signalled bool }

type Cond struct {
	L       Locker
	c       *sync.Cond
	waiters []*condTicket
}

func NewCond(l Locker) *Cond {
	return &Cond{L: l}
}

func (c *Cond) native() *sync.Cond {
	// passthrough only; L is a *Mutex whose embedded sync.Mutex is the real lock
	if c.c == nil {
		if m, ok := c.L.(*Mutex); ok {
			c.c = sync.NewCond(&m.m)
		} else {
			c.c = sync.NewCond(c.L)
		}
	}
	return c.c
}

func (c *Cond) Wait() {
	s := current()
	if s == nil {
		c.native().Wait()
		return
	}
	t := s.cur
	tk := &condTicket{}
	c.waiters = append(c.waiters, tk)
	c.L.Unlock()
	t.kind, t.ticket, t.label = opWait, tk, "cond"
	s.point()
	t.kind, t.ticket = opYield, nil
	c.L.Lock()
}

func (c *Cond) Signal() {
	s := current()
	if s == nil {
		c.native().Signal()
		return
	}
	if len(c.waiters) > 0 {
		c.waiters[0].signalled = true
		c.waiters = c.waiters[1:]
	}
}

func (c *Cond) Broadcast() {
	s := current()
	if s == nil {
		c.native().Broadcast()
		return
	}
	for _, w := range c.waiters {
		w.signalled = true
	}
	c.waiters = nil
}
