// crashpoint.so: LD_PRELOAD interposer that numbers every write-class system call the process makes
// on files under $CRASH_DIR and kills the process (SIGKILL to itself) on entry to call number
// $CRASH_AT. Every numbered call is logged to $CRASH_LOG. Counting is process-wide and atomic.
#define _GNU_SOURCE
#include <dlfcn.h>
#include <fcntl.h>
#include <signal.h>
#include <stdarg.h>
#include <stdatomic.h>
#include <stdio.h>
#include <stdlib.h>
#include <string.h>
#include <sys/syscall.h>
#include <sys/types.h>
#include <unistd.h>

static atomic_long counter;
static long crash_at = -1;
static char dir[4096];
static size_t dirlen;
static int logfd = -1;
static int inited;

static void init(void) {
	if (inited) return;
	inited = 1;
	const char *d = getenv("CRASH_DIR");
	if (d) { strncpy(dir, d, sizeof(dir) - 1); dirlen = strlen(dir); }
	const char *a = getenv("CRASH_AT");
	if (a) crash_at = atol(a);
	const char *l = getenv("CRASH_LOG");
	if (l) logfd = (int)syscall(SYS_open, l, O_WRONLY | O_CREAT | O_APPEND, 0644);
}

static int under_dir_path(const char *p) {
	return dirlen > 0 && p && strncmp(p, dir, dirlen) == 0;
}

static int under_dir_fd(int fd, char *buf, size_t n) {
	char link[64];
	snprintf(link, sizeof link, "/proc/self/fd/%d", fd);
	ssize_t k = readlink(link, buf, n - 1);
	if (k <= 0) return 0;
	buf[k] = 0;
	return under_dir_path(buf);
}

static void point(const char *what, const char *path, long long a, long long b) {
	long n = atomic_fetch_add(&counter, 1) + 1;
	if (logfd >= 0) {
		char line[4400];
		const char *base = path ? path + dirlen : "";
		int len = snprintf(line, sizeof line, "%ld %s %s %lld %lld\n", n, what, base, a, b);
		syscall(SYS_write, logfd, line, (size_t)len);
	}
	if (n == crash_at) {
		syscall(SYS_kill, (pid_t)syscall(SYS_getpid), SIGKILL);
		for (;;) pause();
	}
}

#define REAL(name) static __typeof__(name) *real; if (!real) real = dlsym(RTLD_NEXT, #name); init();

ssize_t pwrite(int fd, const void *buf, size_t n, off_t off) {
	REAL(pwrite)
	char p[4096];
	if (under_dir_fd(fd, p, sizeof p)) point("pwrite", p, (long long)n, (long long)off);
	return real(fd, buf, n, off);
}

ssize_t pwrite64(int fd, const void *buf, size_t n, off64_t off) {
	REAL(pwrite64)
	char p[4096];
	if (under_dir_fd(fd, p, sizeof p)) point("pwrite", p, (long long)n, (long long)off);
	return real(fd, buf, n, off);
}

ssize_t write(int fd, const void *buf, size_t n) {
	REAL(write)
	char p[4096];
	if (dirlen > 0 && under_dir_fd(fd, p, sizeof p)) point("write", p, (long long)n, 0);
	return real(fd, buf, n);
}

int ftruncate(int fd, off_t len) {
	REAL(ftruncate)
	char p[4096];
	if (under_dir_fd(fd, p, sizeof p)) point("ftruncate", p, (long long)len, 0);
	return real(fd, len);
}

int ftruncate64(int fd, off64_t len) {
	REAL(ftruncate64)
	char p[4096];
	if (under_dir_fd(fd, p, sizeof p)) point("ftruncate", p, (long long)len, 0);
	return real(fd, len);
}

int fsync(int fd) {
	REAL(fsync)
	char p[4096];
	if (under_dir_fd(fd, p, sizeof p)) point("fsync", p, 0, 0);
	return real(fd);
}

int fdatasync(int fd) {
	REAL(fdatasync)
	char p[4096];
	if (under_dir_fd(fd, p, sizeof p)) point("fdatasync", p, 0, 0);
	return real(fd);
}

int unlink(const char *path) {
	REAL(unlink)
	if (under_dir_path(path)) point("unlink", path, 0, 0);
	return real(path);
}

int rename(const char *a, const char *b) {
	REAL(rename)
	if (under_dir_path(a) || under_dir_path(b)) point("rename", under_dir_path(a) ? a : b, 0, 0);
	return real(a, b);
}
