// vinst: builds an instrumented mirror of the rosmar working tree.
//
//	vinst -src /repo -dst <dir> -vrt /verif/mc/vrt -export /verif/mc/export
//
// Copies every non-test .go file of package rosmar (plus schema.sql, go.mod, go.sum) into dst and
// rewrites it so that every source of nondeterminism goes through the controlled runtime `vrt`:
//
//	import "sync"  -> import sync "<mod>/vrt/vsync"   (Mutex, Cond, NewCond, Locker are shims)
//	import "time"  -> import time "<mod>/vrt/vtime"   (Now, AfterFunc, Timer, Sleep are shims)
//	go f(x)        -> vrt.Go(func(){ f(x) })          (except inside parallelize/updateView)
//	<-ch           -> vrt.Recv(ch)
//	range over map -> range over vrt.MapKeys(m)       (sorted, deterministic)
//
// The rewrite keys on syntax and types only, never on line numbers, so it survives edits.
// Exit status 2 = cannot rewrite (reported as an internal error by the checks, never a VIOLATION).
package main

import (
	"bytes"
	"flag"
	"fmt"
	"go/ast"
	"go/format"
	"go/importer"
	"go/parser"
	"go/token"
	"go/types"
	"io"
	"os"
	"path/filepath"
	"sort"
	"strings"
)

const modPath = "github.com/couchbaselabs/rosmar"

var nativeGoFuncs = map[string]bool{"parallelize": os.Getenv("VINST_NO_NAMES") == "", "updateView": os.Getenv("VINST_NO_NAMES") == ""}

func die(f string, a ...any) {
	fmt.Fprintf(os.Stderr, "vinst: "+f+"\n", a...)
	os.Exit(2)
}

func copyFile(src, dst string) {
	in, err := os.Open(src)
	if err != nil {
		die("%v", err)
	}
	defer in.Close()
	if err := os.MkdirAll(filepath.Dir(dst), 0o755); err != nil {
		die("%v", err)
	}
	out, err := os.Create(dst)
	if err != nil {
		die("%v", err)
	}
	defer out.Close()
	if _, err := io.Copy(out, in); err != nil {
		die("%v", err)
	}
}

func copyTree(src, dst string) {
	err := filepath.Walk(src, func(p string, info os.FileInfo, err error) error {
		if err != nil {
			return err
		}
		rel, _ := filepath.Rel(src, p)
		if info.IsDir() {
			return os.MkdirAll(filepath.Join(dst, rel), 0o755)
		}
		copyFile(p, filepath.Join(dst, rel))
		return nil
	})
	if err != nil {
		die("%v", err)
	}
}

func main() {
	src := flag.String("src", "/repo", "rosmar working tree")
	dst := flag.String("dst", "", "mirror directory (created)")
	vrtDir := flag.String("vrt", "", "directory of the vrt package (copied to <dst>/vrt)")
	exportDir := flag.String("export", "", "directory with zz_verif_*.go files to add to the mirror")
	noTypes := flag.Bool("notypes", false, "skip type checking (map ranges are then left alone)")
	flag.Parse()
	if *dst == "" {
		die("-dst required")
	}
	if err := os.MkdirAll(*dst, 0o755); err != nil {
		die("%v", err)
	}
	entries, err := os.ReadDir(*src)
	if err != nil {
		die("%v", err)
	}
	fset := token.NewFileSet()
	var files []*ast.File
	var names []string
	for _, e := range entries {
		n := e.Name()
		if e.IsDir() {
			continue
		}
		switch {
		case strings.HasSuffix(n, "_test.go"):
		case strings.HasSuffix(n, ".go"):
			f, err := parser.ParseFile(fset, filepath.Join(*src, n), nil, parser.ParseComments)
			if err != nil {
				die("parse %s: %v", n, err)
			}
			if f.Name.Name != "rosmar" {
				continue
			}
			files = append(files, f)
			names = append(names, n)
		case n == "go.mod" || n == "go.sum" || strings.HasSuffix(n, ".sql"):
			copyFile(filepath.Join(*src, n), filepath.Join(*dst, n))
		}
	}
	if len(files) == 0 {
		die("no rosmar source files in %s", *src)
	}

	// Type information, used only to recognise ranges over maps.
	var info *types.Info
	if !*noTypes {
		info = &types.Info{Types: map[ast.Expr]types.TypeAndValue{}}
		conf := types.Config{
			Importer: importer.ForCompiler(fset, "source", nil),
			Error:    func(error) {}, // tolerate errors; we only need expression types
		}
		oldwd, _ := os.Getwd()
		_ = os.Chdir(*src) // the source importer resolves module imports relative to cwd
		_, _ = conf.Check(modPath, fset, files, info)
		_ = os.Chdir(oldwd)
	}

	stats := map[string]int{}
	decls := map[string]*ast.FuncDecl{}
	for _, f := range files {
		for _, d := range f.Decls {
			if fd, ok := d.(*ast.FuncDecl); ok && fd.Recv == nil {
				decls[fd.Name.Name] = fd
			}
		}
	}
	for i, f := range files {
		rw := &rewriter{fset: fset, info: info, stats: stats, decls: decls}
		rw.file(f)
		var buf bytes.Buffer
		if err := format.Node(&buf, fset, f); err != nil {
			die("format %s: %v", names[i], err)
		}
		if err := os.WriteFile(filepath.Join(*dst, names[i]), buf.Bytes(), 0o644); err != nil {
			die("%v", err)
		}
	}
	// TryLock makes the inside of critical sections observable: if the source uses it anywhere, the
	// controlled runtime also schedules before every Unlock (off otherwise: it multiplies the points).
	tryLock := false
	for _, f := range files {
		ast.Inspect(f, func(n ast.Node) bool {
			if sel, ok := n.(*ast.SelectorExpr); ok && (sel.Sel.Name == "TryLock" || sel.Sel.Name == "TryRLock") {
				tryLock = true
			}
			return true
		})
	}
	stats["uses-trylock"] = 0
	if tryLock {
		stats["uses-trylock"] = 1
		gen := "//go:build verif\n\npackage rosmar\n\nimport \"" + modPath + "/vrt\"\n\nfunc init() { vrt.UnlockPoints = true }\n"
		if err := os.WriteFile(filepath.Join(*dst, "zz_verif_trylock.go"), []byte(gen), 0o644); err != nil {
			die("%v", err)
		}
	}
	if *vrtDir != "" {
		copyTree(*vrtDir, filepath.Join(*dst, "vrt"))
	}
	if *exportDir != "" {
		ents, _ := os.ReadDir(*exportDir)
		for _, e := range ents {
			if strings.HasSuffix(e.Name(), ".go") {
				copyFile(filepath.Join(*exportDir, e.Name()), filepath.Join(*dst, e.Name()))
			}
		}
	}
	var keys []string
	for k := range stats {
		keys = append(keys, k)
	}
	sort.Strings(keys)
	for _, k := range keys {
		fmt.Printf("vinst: %s=%d\n", k, stats[k])
	}
}

type rewriter struct {
	decls   map[string]*ast.FuncDecl
	fset    *token.FileSet
	info    *types.Info
	stats   map[string]int
	needVrt bool
	tmp     int
}

func (rw *rewriter) file(f *ast.File) {
	// 1. import renames
	for _, imp := range f.Imports {
		switch imp.Path.Value {
		case `"sync"`:
			imp.Path.Value = `"` + modPath + `/vrt/vsync"`
			if imp.Name == nil {
				imp.Name = ast.NewIdent("sync")
			}
			rw.stats["import_sync"]++
		case `"time"`:
			imp.Path.Value = `"` + modPath + `/vrt/vtime"`
			if imp.Name == nil {
				imp.Name = ast.NewIdent("time")
			}
			rw.stats["import_time"]++
		}
	}
	// 2. statements
	for _, d := range f.Decls {
		fd, ok := d.(*ast.FuncDecl)
		if !ok || fd.Body == nil {
			continue
		}
		native := nativeGoFuncs[fd.Name.Name]
		rw.block(fd.Body, native)
	}
	if rw.needVrt {
		addImport(f, "vrt", modPath+"/vrt")
	}
}

func addImport(f *ast.File, name, path string) {
	spec := &ast.ImportSpec{Name: ast.NewIdent(name), Path: &ast.BasicLit{Kind: token.STRING, Value: `"` + path + `"`}}
	for _, d := range f.Decls {
		if gd, ok := d.(*ast.GenDecl); ok && gd.Tok == token.IMPORT {
			gd.Specs = append(gd.Specs, spec)
			if !gd.Lparen.IsValid() {
				gd.Lparen = gd.Pos()
				gd.Rparen = gd.End()
			}
			f.Imports = append(f.Imports, spec)
			return
		}
	}
	gd := &ast.GenDecl{Tok: token.IMPORT, Specs: []ast.Spec{spec}}
	f.Decls = append([]ast.Decl{gd}, f.Decls...)
	f.Imports = append(f.Imports, spec)
}

func vrtCall(fn string, args ...ast.Expr) *ast.CallExpr {
	return &ast.CallExpr{Fun: &ast.SelectorExpr{X: ast.NewIdent("vrt"), Sel: ast.NewIdent(fn)}, Args: args}
}

// block rewrites the statements of a block in place (recursively).
func (rw *rewriter) block(b *ast.BlockStmt, native bool) {
	if b == nil {
		return
	}
	for i, s := range b.List {
		b.List[i] = rw.stmt(s, native)
	}
}

func (rw *rewriter) stmts(list []ast.Stmt, native bool) {
	for i, s := range list {
		list[i] = rw.stmt(s, native)
	}
}

func (rw *rewriter) stmt(s ast.Stmt, native bool) ast.Stmt {
	switch s := s.(type) {
	case nil:
		return nil
	case *ast.BlockStmt:
		rw.block(s, native)
	case *ast.IfStmt:
		s.Init = rw.stmt(s.Init, native)
		s.Cond = rw.expr(s.Cond, native)
		rw.block(s.Body, native)
		s.Else = rw.stmt(s.Else, native)
	case *ast.ForStmt:
		s.Init = rw.stmt(s.Init, native)
		s.Cond = rw.expr(s.Cond, native)
		s.Post = rw.stmt(s.Post, native)
		rw.block(s.Body, native)
	case *ast.RangeStmt:
		s.X = rw.expr(s.X, native)
		rw.block(s.Body, native)
		if !native {
			return rw.mapRange(s)
		}
	case *ast.SwitchStmt:
		s.Init = rw.stmt(s.Init, native)
		s.Tag = rw.expr(s.Tag, native)
		rw.block(s.Body, native)
	case *ast.TypeSwitchStmt:
		s.Init = rw.stmt(s.Init, native)
		s.Assign = rw.stmt(s.Assign, native)
		rw.block(s.Body, native)
	case *ast.SelectStmt:
		// select statements stay native (none in rosmar today); bodies are still rewritten
		for _, c := range s.Body.List {
			cc := c.(*ast.CommClause)
			rw.stmts(cc.Body, native)
		}
		rw.stats["select_native"]++
	case *ast.CaseClause:
		for i, e := range s.List {
			s.List[i] = rw.expr(e, native)
		}
		rw.stmts(s.Body, native)
	case *ast.LabeledStmt:
		s.Stmt = rw.stmt(s.Stmt, native)
	case *ast.ExprStmt:
		s.X = rw.expr(s.X, native)
	case *ast.AssignStmt:
		// v, ok := <-ch keeps its native two-value form
		if len(s.Lhs) == 2 && len(s.Rhs) == 1 {
			if u, ok := s.Rhs[0].(*ast.UnaryExpr); ok && u.Op == token.ARROW {
				rw.stats["recv2_native"]++
				return s
			}
		}
		for i, e := range s.Rhs {
			s.Rhs[i] = rw.expr(e, native)
		}
		for i, e := range s.Lhs {
			s.Lhs[i] = rw.expr(e, native)
		}
	case *ast.ReturnStmt:
		for i, e := range s.Results {
			s.Results[i] = rw.expr(e, native)
		}
	case *ast.DeferStmt:
		s.Call = rw.expr(s.Call, native).(*ast.CallExpr)
	case *ast.SendStmt:
		s.Chan = rw.expr(s.Chan, native)
		s.Value = rw.expr(s.Value, native)
	case *ast.IncDecStmt:
		s.X = rw.expr(s.X, native)
	case *ast.DeclStmt:
		if gd, ok := s.Decl.(*ast.GenDecl); ok {
			for _, sp := range gd.Specs {
				if vs, ok := sp.(*ast.ValueSpec); ok {
					for i, e := range vs.Values {
						vs.Values[i] = rw.expr(e, native)
					}
				}
			}
		}
	case *ast.GoStmt:
		// A goroutine that talks to its creator over channels (sends, ranges over a channel) or waits
		// on a WaitGroup is a worker-pool goroutine: it stays native, like the pool it belongs to -
		// its creator blocks natively on those channels, so the scheduler could never run it.
		pool := native || rw.isPoolGoroutine(s.Call)
		s.Call = rw.expr(s.Call, pool).(*ast.CallExpr)
		if pool {
			rw.stats["go_native"]++
			return s
		}
		return rw.goStmt(s)
	}
	return s
}

// expr rewrites function literals' bodies and receive expressions inside e.
func (rw *rewriter) expr(e ast.Expr, native bool) ast.Expr {
	if e == nil {
		return nil
	}
	switch e := e.(type) {
	case *ast.FuncLit:
		rw.block(e.Body, native)
	case *ast.UnaryExpr:
		e.X = rw.expr(e.X, native)
		if e.Op == token.ARROW && !native {
			rw.needVrt = true
			rw.stats["recv"]++
			return vrtCall("Recv", e.X)
		}
	case *ast.CallExpr:
		e.Fun = rw.expr(e.Fun, native)
		for i, a := range e.Args {
			e.Args[i] = rw.expr(a, native)
		}
	case *ast.ParenExpr:
		e.X = rw.expr(e.X, native)
	case *ast.BinaryExpr:
		e.X = rw.expr(e.X, native)
		e.Y = rw.expr(e.Y, native)
	case *ast.SelectorExpr:
		e.X = rw.expr(e.X, native)
	case *ast.IndexExpr:
		e.X = rw.expr(e.X, native)
		e.Index = rw.expr(e.Index, native)
	case *ast.StarExpr:
		e.X = rw.expr(e.X, native)
	case *ast.CompositeLit:
		for i, el := range e.Elts {
			e.Elts[i] = rw.expr(el, native)
		}
	case *ast.KeyValueExpr:
		e.Value = rw.expr(e.Value, native)
	case *ast.TypeAssertExpr:
		e.X = rw.expr(e.X, native)
	case *ast.SliceExpr:
		e.X = rw.expr(e.X, native)
	}
	return e
}

// isPoolGoroutine inspects the body a go statement runs (a function literal, or a function of this
// package called by name).
func (rw *rewriter) isPoolGoroutine(call *ast.CallExpr) bool {
	var body *ast.BlockStmt
	switch f := call.Fun.(type) {
	case *ast.FuncLit:
		body = f.Body
	case *ast.Ident:
		if d := rw.decls[f.Name]; d != nil {
			body = d.Body
		}
	}
	if body == nil {
		return false
	}
	found := false
	ast.Inspect(body, func(n ast.Node) bool {
		switch n := n.(type) {
		case *ast.SendStmt:
			found = true
		case *ast.RangeStmt:
			if rw.info != nil {
				if tv, ok := rw.info.Types[n.X]; ok && tv.Type != nil {
					if _, isChan := tv.Type.Underlying().(*types.Chan); isChan {
						found = true
					}
				}
			}
		case *ast.CallExpr:
			if sel, ok := n.Fun.(*ast.SelectorExpr); ok && sel.Sel.Name == "Wait" && rw.info != nil {
				if tv, ok := rw.info.Types[sel.X]; ok && tv.Type != nil && strings.Contains(tv.Type.String(), "WaitGroup") {
					found = true
				}
			}
		}
		return !found
	})
	return found
}

// go f(a, b)  ->  { vrtA0, vrtA1 := a, b; vrt.Go(func() { f(vrtA0, vrtA1) }) }
func (rw *rewriter) goStmt(s *ast.GoStmt) ast.Stmt {
	rw.needVrt = true
	rw.stats["go"]++
	call := s.Call
	var pre []ast.Stmt
	if len(call.Args) > 0 {
		var lhs []ast.Expr
		var rhs []ast.Expr
		for i, a := range call.Args {
			id := ast.NewIdent(fmt.Sprintf("vrtGoArg%d_%d", rw.tmp, i))
			lhs = append(lhs, id)
			rhs = append(rhs, a)
			call.Args[i] = ast.NewIdent(id.Name)
		}
		rw.tmp++
		pre = append(pre, &ast.AssignStmt{Lhs: lhs, Tok: token.DEFINE, Rhs: rhs})
	}
	lit := &ast.FuncLit{
		Type: &ast.FuncType{Params: &ast.FieldList{}},
		Body: &ast.BlockStmt{List: []ast.Stmt{&ast.ExprStmt{X: call}}},
	}
	goCall := &ast.ExprStmt{X: vrtCall("Go", lit)}
	if len(pre) == 0 {
		return goCall
	}
	return &ast.BlockStmt{List: append(pre, goCall)}
}

// for k, v := range m {B}  ->  for _, k := range vrt.MapKeys(m) { v, vrtOk := m[k]; if !vrtOk {continue}; B }
func (rw *rewriter) mapRange(s *ast.RangeStmt) ast.Stmt {
	if rw.info == nil {
		return s
	}
	tv, ok := rw.info.Types[s.X]
	if !ok || tv.Type == nil {
		return s
	}
	if _, isMap := tv.Type.Underlying().(*types.Map); !isMap {
		return s
	}
	if s.Tok == token.ASSIGN {
		rw.stats["maprange_assign_skipped"]++
		return s
	}
	// m must be side-effect free to be evaluated twice: only identifiers / selector chains / index
	if !pureExpr(s.X) {
		rw.stats["maprange_impure_skipped"]++
		return s
	}
	rw.needVrt = true
	rw.stats["maprange"]++
	keyName := fmt.Sprintf("vrtKey%d", rw.tmp)
	rw.tmp++
	var keyIdent *ast.Ident
	if id, ok := s.Key.(*ast.Ident); ok && id.Name != "_" {
		keyIdent = id
	} else {
		keyIdent = ast.NewIdent(keyName)
	}
	var body []ast.Stmt
	okName := fmt.Sprintf("vrtOk%d", rw.tmp)
	valLhs := ast.Expr(ast.NewIdent("_"))
	if id, ok := s.Value.(*ast.Ident); ok && id.Name != "_" {
		valLhs = id
	}
	body = append(body,
		&ast.AssignStmt{
			Lhs: []ast.Expr{valLhs, ast.NewIdent(okName)},
			Tok: token.DEFINE,
			Rhs: []ast.Expr{&ast.IndexExpr{X: s.X, Index: ast.NewIdent(keyIdent.Name)}},
		},
		&ast.IfStmt{
			Cond: &ast.UnaryExpr{Op: token.NOT, X: ast.NewIdent(okName)},
			Body: &ast.BlockStmt{List: []ast.Stmt{&ast.BranchStmt{Tok: token.CONTINUE}}},
		},
	)
	if s.Key == nil || keyIdent.Name == keyName {
		// key unused by the original body; reference it to keep the compiler happy (it is used above)
	}
	body = append(body, s.Body.List...)
	return &ast.RangeStmt{
		Key:   ast.NewIdent("_"),
		Value: keyIdent,
		Tok:   token.DEFINE,
		X:     vrtCall("MapKeys", s.X),
		Body:  &ast.BlockStmt{List: body},
	}
}

func pureExpr(e ast.Expr) bool {
	switch e := e.(type) {
	case *ast.Ident:
		return true
	case *ast.SelectorExpr:
		return pureExpr(e.X)
	case *ast.IndexExpr:
		return pureExpr(e.X) && pureExpr(e.Index)
	case *ast.StarExpr:
		return pureExpr(e.X)
	case *ast.ParenExpr:
		return pureExpr(e.X)
	case *ast.BasicLit:
		return true
	}
	return false
}
