module verif/vinst

go 1.21
