#!/bin/bash
# build.sh <workdir>: instrumented mirror of /repo's working tree + harness -> <workdir>/vcheck
# Exit 2 on any failure (internal error, never a VIOLATION).
set -u
export GOFLAGS=-mod=mod GOPROXY=off GOSUMDB=off GOTOOLCHAIN=local CGO_ENABLED=1
WORK="$1"
REPO="${VERIF_REPO:-/repo}"
HERE="$(cd "$(dirname "$0")" && pwd)"
mkdir -p "$WORK" || exit 2
VINST="$HERE/../bin/vinst"
if [ ! -x "$VINST" ] || [ "$HERE/vinst/main.go" -nt "$VINST" ]; then
  (cd "$HERE/vinst" && go build -o "$VINST" .) || { echo "build.sh: cannot build vinst" >&2; exit 2; }
fi
rm -rf "$WORK/rosmar" "$WORK/harness"
"$VINST" -src "$REPO" -dst "$WORK/rosmar" -vrt "$HERE/vrt" -export "$HERE/export" > "$WORK/vinst.log" 2>&1 || { cat "$WORK/vinst.log" >&2; echo "build.sh: vinst failed" >&2; exit 2; }
cp -r "$HERE/harness" "$WORK/harness" || exit 2
cat "$REPO/go.sum" "$HERE/harness/go.sum.extra" 2>/dev/null | sort -u > "$WORK/harness/go.sum"
RACEFLAG=""; [ "${RACE:-0}" = "1" ] && RACEFLAG="-race"
(cd "$WORK/harness" && go build $RACEFLAG -tags verif -o "$WORK/vcheck" ./cmd/vcheck) > "$WORK/build.log" 2>&1 || { cat "$WORK/build.log" >&2; echo "build.sh: harness build failed" >&2; exit 2; }
exit 0
