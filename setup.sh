#!/bin/bash
# Offline setup: build the rewriter and the crash-point interposer, warm the Go build cache with one mirror build.
set -e
export GOFLAGS=-mod=mod GOPROXY=off GOSUMDB=off GOTOOLCHAIN=local CGO_ENABLED=1
HERE="$(cd "$(dirname "$0")" && pwd)"
mkdir -p "$HERE/bin"
(cd "$HERE/mc/vinst" && go build -o "$HERE/bin/vinst" .)
gcc -O2 -fPIC -shared -o "$HERE/bin/crashpoint.so" "$HERE/mc/crash/crashpoint.c" -ldl
W="$HOME/.cache/verif-work/setup.$$"
"$HERE/mc/build.sh" "$W"
rm -rf "$W"
echo "setup ok"
