#!/bin/bash
# Offline setup: build the rewriter and warm the Go build cache with one mirror build.
set -e
export GOFLAGS=-mod=mod GOPROXY=off GOSUMDB=off GOTOOLCHAIN=local CGO_ENABLED=1
HERE="$(cd "$(dirname "$0")" && pwd)"
mkdir -p "$HERE/bin"
(cd "$HERE/mc/vinst" && go build -o "$HERE/bin/vinst" .)
W="$HOME/.cache/verif-work/setup.$$"
"$HERE/mc/build.sh" "$W"
rm -rf "$W"
echo "setup ok"
