#!/bin/bash
# replay.sh <replay file>: re-executes a recorded witness against /repo's current tree.
HERE="$(cd "$(dirname "$0")" && pwd)"
WORK="${VERIF_WORK:-$HOME/.cache/verif-work}/replay.$$"
export VERIF_SCRATCH="$WORK/scratch"
trap 'rm -rf "$WORK"' EXIT
mkdir -p "$WORK"
"$HERE/mc/build.sh" "$WORK" || exit 2
VERIF_DIR="$HERE" "$WORK/vcheck" replay "$1"
