#!/usr/bin/env python3
"""Mutation sweep: small syntactic property-breaking edits of rosmar's non-test sources.
For each one: scratch worktree, apply, build, run the repository's suite (a mutant the suite kills
is uninteresting), then run the quick checks mapped to the file and record which check reports it.
Usage: sweep.py [--procs N] [--only substring] [--out FILE]"""
import os, re, subprocess, sys, json, shutil, hashlib, time

ENV = dict(os.environ, GOFLAGS="-mod=mod", GOPROXY="off", GOSUMDB="off", GOTOOLCHAIN="local")
REPO = "/repo"
procs = "8"
only = None
out = "/verif/mutants/SWEEP.md"
args = sys.argv[1:]
while args:
    a = args.pop(0)
    if a == "--procs": procs = args.pop(0)
    elif a == "--only": only = args.pop(0)
    elif a == "--out": out = args.pop(0)

FILES = ["collection.go", "collection+xattrs.go", "collection+subdoc.go", "collection+query.go", "feeds.go", "queue.go", "views.go",
         "designdoc.go", "expiry_manager.go", "bucket_api.go", "bucket_registry.go", "bucket.go", "hlc.go", "utils.go", "payload.go"]
CHECKS = {
    "collection.go": ["ALL", "C11", "C14", "C03"],
    "collection+xattrs.go": ["ALL", "C11", "C12", "C19"],
    "collection+subdoc.go": ["ALL", "C18"],
    "collection+query.go": ["C19", "C11"],
    "feeds.go": ["ALL", "C16", "C15", "C09", "C08"],
    "queue.go": ["ALL", "C16", "C15"],
    "views.go": ["C12", "C11", "C20"],
    "designdoc.go": ["C12", "C11"],
    "expiry_manager.go": ["C14", "C20"],
    "bucket_api.go": ["C14", "C20", "C13", "C16", "C11"],
    "bucket_registry.go": ["C13", "C20"],
    "bucket.go": ["C13", "C20", "C10", "C03"],
    "hlc.go": ["C04"],
    "utils.go": ["ALL", "C14"],
    "payload.go": ["ALL"],
}

def mutants():
    for f in FILES:
        src = open(os.path.join(REPO, f)).read()
        lines = src.split("\n")
        for i, line in enumerate(lines):
            def m(desc, newline):
                if newline != line:
                    yield (f, i, desc, line, newline)
            s = line
            # 1. drop a numbered collection conjunct
            for mm in re.finditer(r"collection\s*=\s*\?\d+\s+AND\s+", s):
                yield from m("drop `%s`" % mm.group(0).strip(), s[:mm.start()] + s[mm.end():])
            # 2. drop a CAS conjunct
            for mm in re.finditer(r"\s+AND\s+cas\s*=\s*\?\d+", s):
                yield from m("drop `%s`" % mm.group(0).strip(), s[:mm.start()] + s[mm.end():])
            # 3. revision counter
            if re.search(r"\brevSeqNo\+\+", s):
                yield from m("remove revSeqNo++", re.sub(r"\b(e\.)?revSeqNo\+\+", "_ = 0", s))
            # 4. event literal fields
            mm = re.match(r"^(\s+)(xattrs|isJSON|exp|isDeletion|revSeqNo|value|cas):\s+.*,$", s)
            if mm and f in ("collection.go", "collection+xattrs.go"):
                yield from m("drop event field %s" % mm.group(2), "")
            # 5. tombstone / exp assignments inside SQL
            for mm in re.finditer(r",\s*tombstone\s*=\s*(\(\?\d IS NULL\)|1|0|\(\(value \|\| \?1\) IS NULL\))", s):
                yield from m("drop `%s` from SQL" % mm.group(0).strip(", "), s[:mm.start()] + s[mm.end():])
            for mm in re.finditer(r",\s*exp\s*=\s*0", s):
                yield from m("drop `exp=0` from SQL", s[:mm.start()] + s[mm.end():])
            # 6. comparison flips in the small logic files
            if f in ("hlc.go", "expiry_manager.go", "feeds.go", "views.go", "utils.go", "bucket_registry.go", "queue.go"):
                for a, b in ((">=", ">"), ("<=", "<"), (" > ", " >= "), (" < ", " <= ")):
                    if a in s and "//" not in s.split(a)[0] and "`" not in s:
                        yield from m("%s -> %s" % (a.strip(), b.strip()), s.replace(a, b, 1))
            # 7. SQL comparison flips
            for a, b in (("cas >= ?2", "cas > ?2"), ("cas > ?3", "cas >= ?3"), ("cas > ?2", "cas >= ?2"), ("exp <= ?2", "exp < ?2")):
                if a in s:
                    yield from m("%s -> %s" % (a, b), s.replace(a, b, 1))
            # 8. absoluteExpiry dropped
            if re.search(r"=\s*absoluteExpiry\((\*?\w+)\)", s) and "func " not in s:
                yield from m("drop absoluteExpiry", re.sub(r"absoluteExpiry\((\*?\w+)\)", r"\1", s))
            # 9. statements removed
            for pat, desc in ((r"^\s*c\.forgetCachedViews\(", "remove forgetCachedViews"), (r"^\s*e\._clearNext\(\)|^\s*bucket\.expManager\._clearNext\(\)", "remove _clearNext"),
                              (r"^\s*bucket\._scheduleExpiration\(\)", "remove _scheduleExpiration"), (r"^\s*removeUserXattrs\(xattrs\)", "remove removeUserXattrs"),
                              (r"^\s*e\.xattrs = nil // xattrs are cleared", "keep xattrs on resurrection"), (r"^\s*xattrs = nil // xattrs are cleared", "keep xattrs on resurrection (_set)"),
                              (r"^\s*q\.cond\.Broadcast\(\)", "remove Broadcast"), (r"^\s*e\.stopped = true", "remove stopped flag"),
                              (r"^\s*delete\(r\.buckets, name\)", "remove registry delete"), (r"^\s*r\.bucketCount\[name\] \+= 1", "remove refcount increment"),
                              (r"^\s*hlc\.updateLatestTime\(", "remove hlc seeding")):
                if re.search(pat, s):
                    yield from m(desc, re.sub(r"^(\s*)\S.*$", r"\1_ = 0", s))

def run(cmd, cwd, timeout=900):
    try:
        p = subprocess.run(cmd, cwd=cwd, env=ENV, stdout=subprocess.PIPE, stderr=subprocess.STDOUT, timeout=timeout)
        return p.returncode, p.stdout.decode(errors="replace")
    except subprocess.TimeoutExpired:
        return 124, "timeout"

rows = []
ms = list(mutants())
if only:
    ms = [x for x in ms if only in x[0] or only in x[2]]
print("mutants:", len(ms), flush=True)
for n, (f, i, desc, old, new) in enumerate(ms):
    wt = "/tmp/sweep.%d" % os.getpid()
    subprocess.run(["git", "-C", REPO, "worktree", "add", "-q", "--detach", wt, "HEAD"], check=True)
    try:
        p = os.path.join(wt, f)
        lines = open(p).read().split("\n")
        assert lines[i] == old
        lines[i] = new
        open(p, "w").write("\n".join(lines))
        rc, o = run(["go", "build", "./..."], wt)
        if rc != 0:
            rows.append((f, i + 1, desc, "does not build", "")); continue
        rc, o = run(["go", "test", "-count=1", "./..."], wt)
        if rc != 0:
            rows.append((f, i + 1, desc, "killed by the repository's suite", "")); continue
        caught = []
        missed = []
        for chk in CHECKS[f]:
            outdir = os.path.expanduser("~/.cache/verif-work/sweep.%d/out" % os.getpid())
            env = dict(ENV, VERIF_REPO=wt, VERIF_OUT=outdir)
            pr = subprocess.run(["/verif/check.sh", chk, "quick", "--procs", procs], env=env, stdout=subprocess.PIPE, stderr=subprocess.STDOUT)
            shutil.rmtree(os.path.dirname(outdir), ignore_errors=True)
            if pr.returncode == 1:
                caught.append(chk)
                break
            elif pr.returncode == 2:
                caught.append(chk + "(internal error)")
                break
            else:
                missed.append(chk)
        rows.append((f, i + 1, desc, "CAUGHT by " + ",".join(caught) if caught else "SURVIVED (" + ",".join(missed) + ")", old.strip()[:100]))
    finally:
        subprocess.run(["git", "-C", REPO, "worktree", "remove", "--force", wt])
    print(n + 1, "/", len(ms), rows[-1][:4], flush=True)
    with open(out, "w") as fh:
        fh.write("# Mutation sweep (tools/sweep.py) — one line per syntactic mutant of /repo at %s\n\n" % subprocess.check_output(["git", "-C", REPO, "rev-parse", "--short", "HEAD"]).decode().strip())
        fh.write("| file:line | mutation | result | original line |\n|---|---|---|---|\n")
        for r in rows:
            fh.write("| %s:%d | %s | %s | `%s` |\n" % (r[0], r[1], r[2], r[3], r[4].replace("|", "\\|")))
