#!/bin/bash
# evalrefactor.sh <dir with patch.diff> <base commit>: a behaviour-preserving refactoring must not
# make any check raise an alarm. Applies the patch to a scratch worktree at <base>, confirms the suite
# passes, runs every quick check against it and lists the ones that do not exit 0.
set -u
export GOFLAGS=-mod=mod GOPROXY=off GOSUMDB=off GOTOOLCHAIN=local
D="$1"; BASE="${2:-HEAD}"
WT=/tmp/evalref.$$
git -C /repo worktree add -q --detach $WT $BASE || exit 2
trap 'git -C /repo worktree remove --force $WT; rm -rf $HOME/.cache/verif-work/ref.$$' EXIT
cd $WT && git apply "$D/patch.diff" || { echo "PATCH DOES NOT APPLY"; exit 3; }
go build ./... || { echo "DOES NOT BUILD"; exit 3; }
if go test -count=1 ./... >/dev/null 2>&1; then echo "suite: PASS"; else echo "suite: FAIL"; fi
bad=0
for i in 01 02 03 04 05 06 07 08 09 10 11 12 13 14 15 16 17 18 19 20; do
  VERIF_REPO=$WT VERIF_OUT=$HOME/.cache/verif-work/ref.$$/out /verif/check.sh C$i quick > $HOME/.cache/verif-work/ref.$$.log 2>&1; rc=$?
  if [ $rc -ne 0 ]; then bad=$((bad+1)); echo "C$i: exit $rc"; grep -v "^VIOLATION" $HOME/.cache/verif-work/ref.$$.log | tail -6 | cut -c1-400; fi
done
rm -f $HOME/.cache/verif-work/ref.$$.log
echo "checks not exiting 0: $bad of 20"
