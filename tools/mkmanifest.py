#!/usr/bin/env python3
"""Regenerates /verif/MANIFEST.json from the table below (single source of truth)."""
import json, os

HERE = os.path.dirname(os.path.dirname(os.path.abspath(__file__)))

SEQ = "explicit-state BFS over operation sequences of the real implementation (instrumented mirror of /repo), every alphabet operation applied in every canonical state up to the depth bound, per-transition oracle from an executable specification"
TRUST = "SQLite, database/sql, Go runtime and otto trusted; fixed small alphabets (2 keys, 3 xattr names, ~100 operation instances, 4 CAS tokens); depth bound; virtual clock"

CLAIMED = {
    "C01": ("SEQ", "Every operation of the ~100-instance KV/xattr/subdoc alphabet is applied in every canonical document state reachable within the depth bound (quick: depth 3 in memory; thorough: depth 4 in memory + depth 3 on disk); after each one every read API on both keys is compared with the stored row and with the specification's post-state, and an error must leave the row byte-identical.", "2.3, 3/C01"),
    "C05": ("SEQ", "Same exploration; after every transition all observers of tombstone-ness (Get/GetRaw/Exists/GetWithXattrs, live event opcode, Dump-backfill opcode and body, insert-style operations applied next by the BFS) must agree with 'has a body', plus the explicit xattr/expiry clauses for deletes, resurrections and PurgeTombstones.", "3/C05"),
    "C06": ("SEQ", "Same exploration; every insert-style entry point is applied from every reachable state (so after every delete/re-create history of length <= bound) and must succeed iff the key has no body, leaving a refused document byte-identical.", "3/C06"),
    "C07": ("SEQ", "Same exploration; every xattr entry point with set/delete subsets and failure causes (stale CAS, missing xattr, oversize, bad JSON) from every reachable xattr-bearing state; full read-back diff: only named xattrs change, body/expiry/other xattrs byte-identical, errors change nothing, CAS/CRC32c macros equal the new CAS / stored body checksum.", "3/C07"),
    "C17": ("SEQ", "Same exploration; for every successful transition the stored revision, $document.revid, $document, the live event RevNo and the backfill RevNo must equal the previous revision + 1 (1 for a new row).", "3/C17"),
}

ALL = ["C%02d" % i for i in range(1, 21)]
NOT_YET = "check not built yet in this round (planned, see DESIGN.md section 3)"

def main():
    checks = []
    for pid in ALL:
        if pid not in CLAIMED:
            continue
        eng, text, ref = CLAIMED[pid]
        checks.append({
            "property_id": pid,
            "quick_cmd": "./check.sh %s quick" % pid,
            "thorough_cmd": "./check.sh %s thorough" % pid,
            "evidence_file": "/verif/evidence/%s.json" % pid,
            "replay_cmd_template": "./replay.sh {path}",
            "engine": eng,
            "level_claimed": {"category": "model_checking", "text": text, "design_ref": "DESIGN.md " + ref},
            "level_note": TRUST,
            "technique": {"SEQ": "explicit-state BFS over real-code operation sequences (bounded depth), spec comparison on every transition",
                          "SCHED": "stateless DFS over thread interleavings of the real code under a controlled scheduler (preemption-bounded)",
                          "CRASH": "exhaustive crash-point enumeration (every write-class syscall) of real write histories"}[eng.split("+")[0]],
        })
    m = {
        "version": 1,
        "setup_cmd": "./setup.sh",
        "hooks": {
            "guard": "verif",
            "enable": "checks copy /repo's non-test sources into a scratch mirror, rewrite sync/time/go/<-/map-range onto the controlled runtime (mc/vinst), add mc/export/zz_verif_export.go (//go:build verif) and build with -tags verif; /repo itself carries no hook code",
            "baseline_off_cmd": "cd /repo && GOFLAGS=-mod=mod GOPROXY=off GOSUMDB=off GOTOOLCHAIN=local go test -vet=off -count=1 ./...",
            "source_commits": [],
            "add_only": True,
        },
        "engines": [
            {"name": "SEQ", "path": "mc/harness/h (kv*.go, pool.go, report.go)", "serves_properties": sorted(p for p, v in CLAIMED.items() if "SEQ" in v[0]), "kind_free_text": "explicit-state BFS over operation sequences on the real implementation, successor = replay on a fresh bucket"},
            {"name": "vinst+vrt", "path": "mc/vinst, mc/vrt", "serves_properties": sorted(CLAIMED), "kind_free_text": "source rewriter + controlled runtime (cooperative scheduler, virtual clock) the mirror is built on"},
        ],
        "checks": checks,
        "not_applicable": [{"property_id": p, "reason": NOT_YET} for p in ALL if p not in CLAIMED],
        "notes": "All checks rebuild an instrumented mirror from /repo's working tree on every invocation (VERIF_REPO overrides the source tree for mutant runs). known_findings.json lists recorded defects and fixed: entries.",
    }
    with open(os.path.join(HERE, "MANIFEST.json"), "w") as f:
        json.dump(m, f, indent=1)
        f.write("\n")

main()
