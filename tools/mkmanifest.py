#!/usr/bin/env python3
"""Regenerates /verif/MANIFEST.json from the table below (single source of truth)."""
import json, os

HERE = os.path.dirname(os.path.dirname(os.path.abspath(__file__)))

SEQ = "explicit-state BFS over operation sequences of the real implementation (instrumented mirror of /repo), every alphabet operation applied in every canonical state up to the depth bound, per-transition oracle from an executable specification"
TRUST = "SQLite, database/sql, Go runtime and otto trusted; fixed small alphabets (2-3 keys, 3 xattr names, ~110 operation instances, CAS tokens); depth / deviation bounds as reported in the evidence; virtual clock; scheduling points at synchronisation operations only; process-kill crash model"

SCHED = "stateless DFS over thread interleavings of the real code under a controlled scheduler (deviation-bounded)"

CLAIMED = {
    "C01": ("SEQ", "Every operation of the ~110-instance KV/xattr/subdoc alphabet is applied in every canonical document state reachable within the depth bound (quick: depth 3 in memory; thorough: depth 4 in memory + depth 3 on disk), through two handles; after each one every read API on both keys is compared with the stored row and with the specification's post-state, and an error must leave the row byte-identical. On disk every transition ends with a reopen differential: all handles closed, bucket reopened, every row, mark, read and backfill compared with the observation before the close.", "2.3, 3/C01"),
    "C02": ("SEQ+SCHED", "(a) same BFS: every CAS-conditional entry point x {0, current, stale} from every reachable state: succeeds iff the CAS is current, a refusal changes nothing. (b) scheduler DFS: all 36 pairs of conditional writers that both read the same version, plus retry loops against blind writers, on memory/disk x 1/2 handles, every schedule with <=2 (thorough 3) deviations: outcomes must equal a sequential run of the same implementation and at most one same-CAS writer wins. Plus the pairs of the pairwise matrix that contain a CAS-carrying write (each preceded by its own read), from a live / tombstone / absent key.", "3/C02"),
    "C03": ("SCHED", "Eight three-thread scenarios (Incr/Get, Update/Update/Set, Add/Add/Delete, WriteUpdateWithXattrs counters, Set/Remove/GetWithXattrs, sub-document writers, Touch/PreserveExpiry/GetExpiry, three handles) x memory/disk x handles: every schedule within the deviation bound must produce per-operation results and a final state that some sequential order of the same operations (respecting real-time order) produces on the same implementation. Plus the pairwise matrix: every unordered pair of 29 client operations on one key as two threads, from a live / tombstone / absent key, memory (1 handle) and disk (2 handles), one deviation bound lower, under the same oracle and the universal feed-order, no-gap, revision-count and no-panic/deadlock oracles.", "2.7, 3/C03"),
    "C04": ("SEQ+SCHED+CRASH", "(a) all 9^6 (thorough 9^7) clock scripts against the HybridLogicalClock; (b) clock world: one operation per write entry point x clock {still,+1s,-1h} x two buckets, BFS depth 3/4, with process restarts of the on-disk bucket (fresh clock, wall clock set back): every CAS above everything handed out before, equal to the CAS read back and on the feed; (c) scheduler DFS of concurrent writers on two buckets/handles: CAS distinct, real-time order = CAS order, stored CAS = max issued per key; (d) the C10 crash runs reopen with an earlier wall clock. Plus a bucket reopened with a stored mark above / below a fresh clock racing a writer on another bucket.", "3/C04"),
    "C05": ("SEQ", "Same BFS as C01; after every transition all observers of tombstone-ness (Get/GetRaw/Exists/GetWithXattrs, live event opcode, Dump-backfill opcode and body, insert-style operations applied next by the BFS) must agree with 'has a body', plus the explicit xattr/expiry clauses for deletes, resurrections and PurgeTombstones. Bucket-level operations go through a handle that has opened no collection.", "3/C05"),
    "C06": ("SEQ", "Same BFS; every insert-style entry point is applied from every reachable state (so after every delete/re-create history within the bound) and must succeed iff the key has no body, leaving a refused document byte-identical.", "3/C06"),
    "C07": ("SEQ", "Same BFS; every xattr entry point with set/delete subsets and failure causes (stale CAS, missing xattr, oversize, bad JSON) from every reachable xattr-bearing state; full read-back diff: only named xattrs change, body/expiry/other xattrs byte-identical, errors change nothing, CAS/CRC32c macros equal the new CAS / stored body checksum.", "3/C07"),
    "C08": ("SEQ+SCHED", "(a) same BFS with two live feeds (one per handle, one per feed API): exactly one faithful event per success on each feed (all fields against the post-state), none per failure. (b) scheduler DFS of 2-3 writers on different handles with a full and a KeysOnly feed: per feed strictly increasing CAS and the multiset of successful mutations. Plus the pairwise matrix: every unordered pair of 29 client operations on one key as two threads, from a live / tombstone / absent key, memory (1 handle) and disk (2 handles), one deviation bound lower, under the same oracle and the universal feed-order, no-gap, revision-count and no-panic/deadlock oracles.", "3/C08"),
    "C09": ("SEQ+SCHED", "(a) same BFS: at every state Dump feeds from CAS 0 and from four other start CAS values: framed by markers, ascending, exactly the documents with CAS >= s, each event equal to the document's state. (b) scheduler DFS of StartDCPFeed(backfill+live) against 1-2 writers: every key's final version delivered by backfill or live. Plus the pairwise matrix: every unordered pair of 29 client operations on one key as two threads, from a live / tombstone / absent key, memory (1 handle) and disk (2 handles), one deviation bound lower, under the same oracle and the universal feed-order, no-gap, revision-count and no-panic/deadlock oracles.", "3/C09"),
    "C10": ("CRASH", "Every write-class system call (pwrite/write/ftruncate/fsync/fdatasync/unlink/rename under the bucket directory) of four write histories of 9-13 calls (640 crash points) is a crash point: the child is SIGKILLed there, a fresh process reopens the directory, and its complete contents must equal the state recorded after the last acknowledged call or after the interrupted one; pending expiry still fires; first new CAS above all stored.", "2.5, 3/C10"),
    "C11": ("SEQ", "(a) KV BFS with same-key witnesses in another collection and another bucket (rows, every read, feeds) that must stay byte-identical; (b) isolation world: 28 operations on the subject collection incl. Touch, expiry, purge, design documents, views, queries, CreateIndex, drop and re-create, BFS depth 3/4 (disk 2/3): witness rows, reads, view and query results, design documents unchanged; dropped collection leaves nothing; re-created one is empty; (c) views world with writes to another collection: a discrepancy that disappears when those writes are removed from the path is interference. The isolation world reaches the subject collection through three handles that have cached different things (drop / re-create / lookup / CreateDataStore / purge through each).", "3/C11"),
    "C12": ("SEQ+SCHED", "Views world: 21-25 write/ddoc/query operations (incl. SetWithMeta with CAS above/below, purge, drop+re-create, ddoc replaced through the other handle), BFS depth 4 in memory (disk 2/3), queries placed only where the path puts them; after every transition every view x 6 parameter sets is compared with a Go evaluation of the map functions over the stored rows (JSON collation order) and with a freshly created identical view. Plus scheduler DFS of a writer against a writer followed by a non-stale query (and three-thread variants): View results linearizable, and at quiescence the non-stale view equals the map function over the stored rows.", "3/C12"),
    "C13": ("SEQ+SCHED", "(a) registry world: OpenBucket x 5 name/URL combinations x 3 modes, Close, repeated Close, CloseAndDelete over up to four handles, BFS depth 4/6; after every step a read+write probe on every handle, GetBucketNames, reference counts, directories. (b) scheduler DFS of 2-3 threads opening/probing/closing an existing on-disk bucket. (c) the on-disk KV BFS's reopen differential (see C01): data intact after the last handle closed.", "3/C13"),
    "C14": ("SEQ+SCHED", "Expiry world on the virtual clock: six expiry-carrying entry points x {0,+10,+30,absolute}, touches, PreserveExpiry paths, deletes on three keys in two collections, clock advances 5/15/40 s, reopen; BFS depth 4/5 (disk 3/4); readable with the right GetExpiry before T, tombstone + deletion event without any client call after T+5 s. The world also drops and re-creates a collection and (on disk) reopens. Plus scheduler DFS of writers / touches with different deadlines against each other and against a running sweep: after the race the virtual clock is stepped forward and no document may outlive its stored expiry by more than 5 s.", "3/C14"),
    "C15": ("SCHED", "Checkpointed feed stopped and resumed (terminator / finished dump) while 2 writers run, then a final resumed dump; every schedule within the deviation bound: every key's final version is delivered by some run, checkpoint never ahead of what was delivered.", "3/C15"),
    "C16": ("SEQ+SCHED", "(a) feed world: feeds started through either handle / either API, live, dump, and dump held mid-delivery; terminator closes, collection drop, handle close, bucket deletion; BFS depth 4/5 on disk and in memory; done channels exactly when they must, no callback after the end, running feeds receive a probe write through every open handle. (b) scheduler DFS of the stop actions against a writer.", "3/C16"),
    "C17": ("SEQ+SCHED", "Same BFS as C01: stored revision, $document.revid, $document, live and backfill RevNo all = previous + 1; plus scheduler DFS of Update/WriteSubDoc/WriteUpdateWithXattrs racing with Touch/SetXattrs: final revision = number of successful mutations. Plus the pairwise matrix: every unordered pair of 29 client operations on one key as two threads, from a live / tombstone / absent key, memory (1 handle) and disk (2 handles), one deviation bound lower, under the same oracle and the universal feed-order, no-gap, revision-count and no-panic/deadlock oracles.", "3/C17"),
    "C18": ("SEQ+SCHED", "Same BFS (sub-document operations over object, raw, absent, tombstone documents, CAS tokens) against a JSON-editing specification; scheduler DFS of concurrent sub-document writers and a blind Set: outcomes equal a sequential run. Plus read-modify-write loop against delete + purge, and the sub-document pairs of the pairwise matrix.", "3/C18"),
    "C19": ("SEQ", "Queries world: 21 write operations over two collections (incl. nil/empty bodies, tombstones with xattrs, resurrections, WithMeta), BFS depth 3/4 in memory (pre-recorded iterator) and on disk (streaming iterator); five queries per collection compared with a Go evaluation over a key-value read-back; no connection left checked out. Every query is also asked through a second handle; the world drops and re-creates a collection through either handle and (on disk) reopens.", "3/C19"),
    "C20": ("SCHED", "60 scenarios: writer, feed start-up, view update_after, due expiry timer, each racing Close / CloseAll / CloseAndDelete / DropDataStore, and pairs of shutdown calls, memory/disk x handles; every schedule within the deviation bound: no panic (any goroutine), no deadlock, no goroutine or lock left behind, follow-up calls on this and another bucket return. Plus the pairwise matrix: every unordered pair of 29 client operations on one key as two threads, from a live / tombstone / absent key, memory (1 handle) and disk (2 handles), one deviation bound lower, under the same oracle and the universal feed-order, no-gap, revision-count and no-panic/deadlock oracles.", "3/C20"),
}

ALL = ["C%02d" % i for i in range(1, 21)]
NOT_YET = "check not built yet in this round (planned, see DESIGN.md section 3)"

def main():
    checks = []
    for pid in ALL:
        if pid not in CLAIMED:
            continue
        eng, text, ref = CLAIMED[pid]
        checks.append({
            "property_id": pid,
            "quick_cmd": "./check.sh %s quick" % pid,
            "thorough_cmd": "./check.sh %s thorough" % pid,
            "evidence_file": "/verif/evidence/%s.json" % pid,
            "replay_cmd_template": "./replay.sh {path}",
            "engine": eng,
            "level_claimed": {"category": "model_checking", "text": text, "design_ref": "DESIGN.md " + ref},
            "level_note": TRUST,
            "technique": " + ".join({"SEQ": "explicit-state BFS over real-code operation sequences (bounded depth), spec comparison on every transition",
                          "SCHED": "stateless DFS over thread interleavings of the real code under a controlled scheduler (deviation-bounded)",
                          "CRASH": "exhaustive crash-point enumeration (every write-class syscall) of real write histories"}[e] for e in eng.split("+")),
        })
    m = {
        "version": 1,
        "setup_cmd": "./setup.sh",
        "hooks": {
            "guard": "verif",
            "enable": "checks copy /repo's non-test sources into a scratch mirror, rewrite sync/time/go/<-/map-range onto the controlled runtime (mc/vinst), add mc/export/zz_verif_export.go (//go:build verif) and build with -tags verif; /repo itself carries no hook code",
            "baseline_off_cmd": "cd /repo && GOFLAGS=-mod=mod GOPROXY=off GOSUMDB=off GOTOOLCHAIN=local go test -vet=off -count=1 ./...",
            "source_commits": [],
            "add_only": True,
        },
        "engines": [
            {"name": "SEQ", "path": "mc/harness/h (kv*.go, gen.go, *world.go, pool.go, report.go)", "serves_properties": sorted(p for p, v in CLAIMED.items() if "SEQ" in v[0]), "kind_free_text": "explicit-state BFS over operation sequences on the real implementation, successor = replay on a fresh bucket"},
            {"name": "SCHED", "path": "mc/harness/h (sched.go, scenarios*.go)", "serves_properties": sorted(p for p, v in CLAIMED.items() if "SCHED" in v[0]), "kind_free_text": "stateless deviation-bounded DFS over interleavings of the real code under the vrt cooperative scheduler; sequential-reference linearizability oracle"},
            {"name": "CRASH", "path": "mc/crash/crashpoint.c, mc/harness/h/crash.go", "serves_properties": sorted(p for p, v in CLAIMED.items() if "CRASH" in v[0]), "kind_free_text": "LD_PRELOAD crash-point interposer; child killed at every write-class system call; fresh-process verifier"},
            {"name": "vinst+vrt", "path": "mc/vinst, mc/vrt", "serves_properties": sorted(CLAIMED), "kind_free_text": "source rewriter + controlled runtime (cooperative scheduler, virtual clock) the mirror is built on"},
        ],
        "checks": checks,
        "not_applicable": [{"property_id": p, "reason": NOT_YET} for p in ALL if p not in CLAIMED],
        "notes": "All checks rebuild an instrumented mirror from /repo's working tree on every invocation (VERIF_REPO overrides the source tree for mutant runs). known_findings.json lists recorded defects and fixed: entries.",
    }
    with open(os.path.join(HERE, "MANIFEST.json"), "w") as f:
        json.dump(m, f, indent=1)
        f.write("\n")

main()
