#!/bin/bash
# evalmut.sh <dir with patch.diff [+ demo_test.go]> <check ids...>
# Applies the patch to a scratch worktree of /repo HEAD, confirms build + suite pass (+ demo fails
# with / passes without), then runs the given checks (quick) against the mutated tree.
set -u
export GOFLAGS=-mod=mod GOPROXY=off GOSUMDB=off GOTOOLCHAIN=local
D="$1"; shift
WT=/tmp/evalmut.$$
git -C /repo worktree add -q --detach $WT HEAD || exit 2
trap 'git -C /repo worktree remove --force $WT; rm -rf $HOME/.cache/verif-work/mut.$$' EXIT
cd $WT
if ! git apply "$D/patch.diff"; then echo "PATCH DOES NOT APPLY"; exit 3; fi
go build ./... || { echo "MUTANT DOES NOT BUILD"; exit 3; }
if go test -count=1 ./... > /tmp/evalmut.$$.log 2>&1; then echo "suite: PASS with mutant"; else echo "suite: FAIL with mutant (not a valid seeded change)"; tail -5 /tmp/evalmut.$$.log; fi
if [ -f "$D/demo_test.go" ]; then
  cp "$D/demo_test.go" ./zz_demo_test.go
  if go test -count=1 -run 'Seeded' ./... > /tmp/evalmut.$$.log 2>&1; then echo "demo: PASS with mutant (demo does not demonstrate)"; else echo "demo: FAIL with mutant (good)"; fi
  git apply -R "$D/patch.diff" 2>/dev/null || git checkout -q -- $(git diff --name-only)
  if go test -count=1 -run 'Seeded' ./... > /tmp/evalmut.$$.log 2>&1; then echo "demo: PASS without mutant (good)"; else echo "demo: FAIL without mutant"; tail -5 /tmp/evalmut.$$.log; fi
  rm -f zz_demo_test.go
  git checkout -q -- . ; git apply "$D/patch.diff"
fi
rm -f /tmp/evalmut.$$.log
for id in "$@"; do
  echo "--- check $id quick against the mutant"
  VERIF_REPO=$WT VERIF_OUT=$HOME/.cache/verif-work/mut.$$/out /verif/check.sh $id quick 2>&1 | grep -v "^  " | cut -c1-300 | tail -6
done
