#!/bin/bash
# trymut.sh <mutants/NAME.diff> <check ids...>: apply one of our own property-breaking patches to a
# scratch worktree, confirm the repository's suite still passes, run the checks against it.
set -u
export GOFLAGS=-mod=mod GOPROXY=off GOSUMDB=off GOTOOLCHAIN=local
P="$1"; shift
WT=/tmp/trymut.$$
git -C /repo worktree add -q --detach $WT HEAD || exit 2
trap 'git -C /repo worktree remove --force $WT; rm -rf $HOME/.cache/verif-work/tm.$$' EXIT
cd $WT && git apply "$P" || { echo "PATCH DOES NOT APPLY"; exit 3; }
go build ./... || { echo "DOES NOT BUILD"; exit 3; }
if go test -count=1 ./... >/dev/null 2>&1; then echo "suite: PASS with mutant"; else echo "suite: FAIL with mutant"; fi
for id in "$@"; do
  VERIF_REPO=$WT VERIF_OUT=$HOME/.cache/verif-work/tm.$$/out /verif/check.sh $id quick 2>&1 | grep -v "^  " | cut -c1-200 | tail -3
done
