#!/bin/bash
# check.sh <property id> <quick|thorough> [extra vcheck flags]
# Mirrors /repo's current working tree (instrumented), builds the harness against it, runs the check.
# exit 0 = held on everything explored (KNOWN-FINDING lines possible); 1 = VIOLATION; 2 = internal error.
ID="$1"; TIER="${2:-${VERIF_TIER:-quick}}"; shift; [ $# -gt 0 ] && shift
HERE="$(cd "$(dirname "$0")" && pwd)"
WORK="${VERIF_WORK:-$HOME/.cache/verif-work}/run.$$"
export VERIF_SCRATCH="$WORK/scratch"
trap 'rm -rf "$WORK"' EXIT
mkdir -p "$WORK"
[ -f "$HERE/bin/crashpoint.so" ] || gcc -O2 -fPIC -shared -o "$HERE/bin/crashpoint.so" "$HERE/mc/crash/crashpoint.c" -ldl
"$HERE/mc/build.sh" "$WORK" || { echo "check.sh: build failed (internal error, not a verdict)"; exit 2; }
if [ "$TIER" = thorough ] && { [ "$ID" = C03 ] || [ "$ID" = C20 ]; }; then
  # auxiliary, non-deciding: free-running -race pass of the scenario bodies (DESIGN 6); its output is a diagnostic in the evidence
  if RACE=1 "$HERE/mc/build.sh" "$WORK/race" >/dev/null 2>&1; then
    ( cd "$WORK" && GORACE="log_path=$WORK/racelog halt_on_error=0" timeout 900 "$WORK/race/vcheck" racepass 3 > "$WORK/racepass.out" 2>&1 )
    export VERIF_RACEPASS_OUT="$WORK/racepass.out" VERIF_RACEPASS_LOGS="$WORK/racelog"
  fi
fi
VERIF_BIN="$HERE/bin" VERIF_KNOWN="$HERE/known_findings.json" VERIF_DIR="${VERIF_OUT:-$HERE}" "$WORK/vcheck" check "$ID" "$TIER" "$@"
exit $?
